#!/usr/bin/env python3
"""usage: import_seeded.py <PROP> <n> -- copies a confirmed sub-agent defect from /tmp/wt-<PROP>/mutant into
/verif/seeded/<PROP>-<n>/ (patch.diff, demo.rs, agent README excerpt) and writes meta.json skeleton."""
import sys, os, shutil, json, subprocess, re
prop, n = sys.argv[1], sys.argv[2]
rnd = sys.argv[3] if len(sys.argv) > 3 else ""          # optional round tag, e.g. r2 (worktree /tmp/w2-<PROP>)
wt = f"/tmp/w{rnd[1:]}-{prop}" if rnd else f"/tmp/wt-{prop}"   # r2 -> /tmp/w2-<PROP>, r3 -> /tmp/w3-<PROP>
dst = f"/verif/seeded/{prop}-{rnd}-{n}" if rnd else f"/verif/seeded/{prop}-{n}"
os.makedirs(dst, exist_ok=True)
shutil.copy(f"{wt}/mutant/patch{n}.diff", f"{dst}/patch.diff")
shutil.copy(f"{wt}/mutant/demo_mutant{n}.rs", f"{dst}/demo.rs")
readme = open(f"{wt}/mutant/README.md").read() if os.path.exists(f"{wt}/mutant/README.md") else ""
open(f"{dst}/agent_README.md", "w").write(readme)
conf = subprocess.run(["/verif/tools/confirm_seeded.sh", wt, n], capture_output=True, text=True).stdout
files = re.findall(r'^\+\+\+ b/(\S+)', open(f"{dst}/patch.diff").read(), re.M)
meta = {"id": os.path.basename(dst), "property": prop, "files_changed": files,
        "breaks": "", "needs_to_manifest": "",
        "confirmation": {"how": "tools/confirm_seeded.sh in the agent's scratch worktree: demo passes on the original source; with the patch the repository suite still shows 105 passed and the demo fails", "output": conf.strip().splitlines()},
        "detected_by": {}}
json.dump(meta, open(f"{dst}/meta.json", "w"), indent=1)
print(conf)
