#!/usr/bin/env python3
"""usage: import_refactor.py <k>  -- copies the behaviour-preserving patches of refactor agent k (/tmp/wr-<k>/mutant/<PROP>_patchN.diff)
into /verif/refactors/<PROP>-rf-N/ (patch.diff, agent README, meta.json) after confirming in the agent's worktree that each
applies, compiles with the features the harness uses and keeps the 105-test suite green."""
import sys, os, glob, shutil, json, subprocess, re
k = sys.argv[1]
wt = f"/tmp/wr-{k}"
env = dict(os.environ, CARGO_NET_OFFLINE="true", CARGO_TARGET_DIR=f"{wt}/target")
readme = open(f"{wt}/mutant/README.md").read() if os.path.exists(f"{wt}/mutant/README.md") else ""
for pth in sorted(glob.glob(f"{wt}/mutant/*_patch*.diff")):
    m = re.match(r"(C\d\d)_patch(\d+)\.diff", os.path.basename(pth))
    if not m: continue
    prop, n = m.group(1), m.group(2)
    dst = f"/verif/refactors/{prop}-rf-{n}"
    subprocess.run(["git", "checkout", "-q", "--", "src"], cwd=wt)
    ap = subprocess.run(["git", "apply", pth], cwd=wt, capture_output=True, text=True)
    if ap.returncode != 0:
        print(prop, n, "PATCH DOES NOT APPLY", ap.stderr[:200]); continue
    t = subprocess.run("cargo test --workspace --no-fail-fast --offline 2>&1 | grep -E '^test result' | head -1", shell=True, cwd=wt, env=env, capture_output=True, text=True).stdout.strip()
    b = subprocess.run("cargo build --offline --features serde,base64,json-contract 2>&1 | tail -1", shell=True, cwd=wt, env=env, capture_output=True, text=True).stdout.strip()
    subprocess.run(["git", "checkout", "-q", "--", "src"], cwd=wt)
    ok = "105 passed; 0 failed" in t and "Finished" in b
    print(prop, n, "suite:", t, "| build:", b[:60], "| KEEP" if ok else "| DROP")
    if not ok: continue
    os.makedirs(dst, exist_ok=True)
    shutil.copy(pth, f"{dst}/patch.diff")
    open(f"{dst}/agent_README.md", "w").write(readme)
    files = re.findall(r'^\+\+\+ b/(\S+)', open(pth).read(), re.M)
    json.dump({"id": os.path.basename(dst), "property": prop, "kind": "behaviour-preserving change (negative control: the check must stay silent)",
               "files_changed": files, "confirmation": {"suite_with_patch": t, "build_with_features": b}, "check_result": {}}, open(f"{dst}/meta.json", "w"), indent=1)
