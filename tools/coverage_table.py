#!/usr/bin/env python3
"""prints the measured-coverage table of DESIGN.md section 5 from /verif/evidence/*.json"""
import json
print("| prop | states / cases | transitions / strings / calls | impl-vs-reference comparisons | distinct non-trivial | wall s (quick) |\n|---|---|---|---|---|---|")
for i in range(1, 21):
    e = json.load(open(f"/verif/evidence/C{i:02d}.json")); c = e["coverage"]
    print(f"| C{i:02d} | {c['states']:,} | {c['transitions']:,} | {c['traces_validated_against_impl']:,} | {c['distinct_nontrivial']:,} | {e['wall_s']} |")
