#!/usr/bin/env python3
"""Regenerates /verif/MANIFEST.json from the table below (kept valid at all times)."""
import json, os, sys
HERE = os.path.dirname(os.path.dirname(os.path.abspath(__file__)))
props = [json.loads(l) for l in open(os.path.join(HERE, "properties.jsonl"))]
ids = [p["id"] for p in props]

# id -> (technique, level text, level note, design ref, has_replay)
CHECKS = json.load(open(os.path.join(HERE, "tools", "checks.json")))
HOOK_COMMITS = json.load(open(os.path.join(HERE, "tools", "hook_commits.json")))

checks = []
for i in ids:
    if i not in CHECKS:
        continue
    c = CHECKS[i]
    e = {
        "property_id": i,
        "quick_cmd": f"./check {i} --tier quick",
        "thorough_cmd": f"./check {i} --tier thorough",
        "evidence_file": f"/verif/evidence/{i}.json",
        "engine": c.get("engine", "enum"),
        "level_claimed": {"category": "model_checking", "text": c["text"], "design_ref": c.get("design_ref", "DESIGN.md section 5, " + i)},
        "level_note": c["note"],
        "technique": c["technique"],
    }
    if c.get("replay"):
        e["replay_cmd_template"] = f"./check {i} --replay {{path}}"
    checks.append(e)

na = [{"property_id": i, "reason": "check not built yet in this session (planned: see DESIGN.md section 5); no other technique substituted"} for i in ids if i not in CHECKS]

m = {
    "version": 1,
    "setup_cmd": "cd /verif/harness && CARGO_NET_OFFLINE=true cargo build --release --offline",
    "hooks": {
        "guard": "--cfg elementsproject_rust_elements_verif (rustc cfg flag)",
        "enable": "no check needs a hook any more: the harness crate depends on /repo by path and builds it WITHOUT the cfg flag into /verif/.build (so a refactoring of private fields can never break the harness build). The single read-only hook H1 (SighashCache::verif_cache_fill, commit below) is still in /repo behind the guard but is not compiled by any check; C13 observes the cache through its public derived Debug impl instead (DESIGN.md section 6).",
        "baseline_off_cmd": "cd /repo && cargo test --workspace --no-fail-fast --offline",
        "source_commits": HOOK_COMMITS,
        "add_only": True,
    },
    "engines": [
        {"name": "enum", "path": "/verif/harness/src/engine", "serves_properties": [i for i in ids if i in CHECKS and CHECKS[i].get("engine", "enum") == "enum"],
         "kind_free_text": "small-scope structural enumeration: complete products of finite feature alphabets plus deviation-bounded byte-string neighbourhoods (d=0,1,2), every case run on the real crate and compared with an independent reference model"},
        {"name": "bfs", "path": "/verif/harness/src/engine", "serves_properties": [i for i in ids if i in CHECKS and CHECKS[i].get("engine") == "bfs"],
         "kind_free_text": "explicit-state search over operation histories: states are real library objects reached by replaying API calls, de-duplicated by a canonical fingerprint, invariant evaluated in every state"},
    ],
    "checks": checks,
    "not_applicable": na,
    "notes": "All checks: ./check <ID> [--tier quick|thorough] [--replay <file>]; exit 0 held / 1 VIOLATION / >=2 machinery failure. Known findings live in /verif/known_findings.json. See DESIGN.md.",
}
json.dump(m, open(os.path.join(HERE, "MANIFEST.json"), "w"), indent=1)
print("checks:", [c["property_id"] for c in checks], "not_applicable:", [n["property_id"] for n in na])
