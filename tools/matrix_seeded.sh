#!/bin/bash
# usage: matrix_seeded.sh [-w workers] [-t tier] [-x "extra check ids"] <seeded-id> ...   (no ids = all of /verif/seeded/*/)
# Runs, for each seeded change, the quick check of the property it breaks against a private scratch copy of /repo
# (git worktree under /tmp/mw<k>/repo, harness copy under /tmp/mw<k>/harness, build under /tmp/mw<k>/build), several
# workers in parallel. /repo itself is never modified. Output: one line per (change, check) in /verif/seeded/MATRIX.txt
# (appended, latest line per pair wins) -- exit code of the check and the first violation classes.
# The scratch copies are removed at the end (keep with KEEP=1).
W=3; TIER=quick; EXTRA=""
while getopts "w:t:x:" o; do case $o in w) W=$OPTARG;; t) TIER=$OPTARG;; x) EXTRA=$OPTARG;; esac; done
shift $((OPTIND-1))
IDS=("$@")
SD=${SEEDED_DIR:-/verif/seeded}   # SEEDED_DIR=/verif/refactors runs the behaviour-preserving changes (expected: exit 0)
if [ ${#IDS[@]} -eq 0 ]; then IDS=($(cd $SD && ls -d */ | tr -d /)); fi
export CARGO_NET_OFFLINE=true
OUT=$SD/MATRIX.txt
setup() { # worker k
  local k=$1 d=/tmp/mw$1
  rm -rf $d; mkdir -p $d
  git -C /repo worktree prune
  git -C /repo worktree add -q --detach $d/repo HEAD || return 1
  cp -r /verif/harness $d/harness; rm -rf $d/harness/target
  sed -i "s#path = \"/repo\"#path = \"$d/repo\"#" $d/harness/Cargo.toml
  sed -i "s#target-dir = \"/verif/.build\"#target-dir = \"$d/build\"#" $d/harness/.cargo/config.toml
}
worker() {
  local k=$1; shift
  local d=/tmp/mw$k
  setup $k || { echo "worker $k setup failed"; return; }
  for id in "$@"; do
    local m=$SD/$id
    [ -f $m/patch.diff ] || continue
    local prop=$(python3 -c "import json;print(json.load(open('$m/meta.json'))['property'])")
    git -C $d/repo checkout -q -- . ; git -C $d/repo apply $m/patch.diff || { echo "$id - PATCH-DOES-NOT-APPLY" >> $OUT; continue; }
    if ! ( cd $d/harness && cargo build --release --offline ) > $d/build.log 2>&1; then
      echo "$id $prop BUILD-FAILED $(grep -m1 '^error' $d/build.log | cut -c1-200)" >> $OUT; git -C $d/repo checkout -q -- .; continue
    fi
    for c in $prop $EXTRA; do
      rm -rf $d/out; mkdir -p $d/out
      VERIF_OUT_DIR=$d/out timeout 3600 $d/build/release/mc $c --tier $TIER > $d/run.log 2>&1; e=$?
      cls=$(grep -E "class=" $d/run.log | grep -v KNOWN-FINDING | sed 's/^ *//' | cut -c1-160 | head -3 | tr '\n' ';')
      echo "$id $c tier=$TIER exit=$e $cls" >> $OUT
    done
    git -C $d/repo checkout -q -- .
  done
  if [ -z "${KEEP:-}" ]; then git -C /repo worktree remove --force $d/repo; rm -rf $d; fi
}
for ((k=0;k<W;k++)); do
  L=(); for ((i=k;i<${#IDS[@]};i+=W)); do L+=("${IDS[$i]}"); done
  worker $k "${L[@]}" &
done
wait
git -C /repo worktree prune
echo done
