#!/usr/bin/env python3
"""One-time extraction of Elements-generated id vectors pinned in the repository's unit tests
(src/transaction.rs, src/block.rs) into /verif/vectors/ids.json. The harness's reference models must
reproduce them (oracle self-test); the data is committed so the checks do not read test sources."""
import re, json
out = {"txs": [], "blocks": []}
src = open('/repo/src/transaction.rs').read()
# every hex_deserialize!("...") immediately bound to `tx`, with the txid / wtxid assertions that follow
for m in re.finditer(r'let tx: Transaction = hex_deserialize!\(\s*((?:"[0-9a-f\\\s]*"\s*)+)\);', src):
    hexs = re.sub(r'[^0-9a-f]', '', m.group(1))
    tail = src[m.end(): m.end() + 6000]
    nxt = tail.find('hex_deserialize!')
    if nxt >= 0:
        tail = tail[:nxt]
    tx = re.search(r'tx\.txid\(\)\.to_string\(\),\s*"([0-9a-f]{64})"', tail)
    wtx = re.search(r'tx\.wtxid\(\)\.to_string\(\),\s*"([0-9a-f]{64})"', tail)
    if tx or wtx:
        out["txs"].append({"hex": hexs, "txid": tx.group(1) if tx else None, "wtxid": wtx.group(1) if wtx else None})
bsrc = open('/repo/src/block.rs').read()
def const(name):
    m = re.search(r'const ' + name + r': &str = "\\\n(.*?)";', bsrc, re.S)
    return re.sub(r'[^0-9a-f]', '', m.group(1))
out["blocks"].append({"hex": const('SIMPLE_BLOCK'), "hash": "287ca47e8da47eb8c28d870663450bb026922eadb30a1b2f8293e6e9d1ca5322"})
out["blocks"].append({"hex": const('DYNAFED_BLOCK'), "hash": "4961df970cf12d789383974e6ab439f780d956b5a50162ca9d281362e46c605a"})
for m in re.finditer(r'let block: Block = hex_deserialize!\(\s*"\\?\n?((?:[0-9a-f\\\s]*))"\s*\);', bsrc):
    hexs = re.sub(r'[^0-9a-f]', '', m.group(1))
    tail = bsrc[m.end(): m.end() + 3000]
    h = re.search(r'block\.block_hash\(\)\.to_string\(\),\s*"([0-9a-f]{64})"', tail)
    if h and hexs:
        out["blocks"].append({"hex": hexs, "hash": h.group(1)})
json.dump(out, open('/verif/vectors/ids.json', 'w'), indent=0)
print(len(out["txs"]), "tx vectors;", len(out["blocks"]), "block vectors")

# address strings pinned in src/address.rs::test_fixed_addresses -> /verif/vectors/addresses.json
asrc = open('/repo/src/address.rs').read()
m = re.search(r'fn test_fixed_addresses\(\).*?let mut expected = IntoIterator::into_iter\(\[(.*?)\]\);', asrc, re.S)
addrs = re.findall(r'"([0-9A-Za-z]+)"', m.group(1))
json.dump({"fixed": addrs, "source": "src/address.rs test_fixed_addresses (pinned strings)"}, open('/verif/vectors/addresses.json', 'w'), indent=0)
print(len(addrs), "address vectors")
