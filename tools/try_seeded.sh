#!/bin/bash
# usage: try_seeded.sh <patch.diff> <ID> [<ID> ...]  -- applies a seeded change to /repo, runs the quick checks, reverts.
P=$1; shift
cd /verif
git -C /repo diff --quiet || { echo "/repo is dirty"; exit 2; }
git -C /repo apply "$P" || { echo "PATCH DOES NOT APPLY"; exit 2; }
for id in "$@"; do
  VERIF_OUT_DIR=/tmp/seeded-out ./check $id 2>&1 | grep -E "^C[0-9]+ tier|class=|VIOLATION|MACHINERY|KNOWN" | cut -c1-260 | head -12
  echo "-- $id exit=${PIPESTATUS[0]}"
done
git -C /repo checkout -- .
