#!/bin/bash
# usage: confirm_seeded.sh <worktree> <n>   -- re-confirms a sub-agent's defect n in its scratch worktree:
#   patch applies; the 105-test suite still passes with it; the demo fails with it and passes without it.
WT=$1; N=$2
export CARGO_NET_OFFLINE=true CARGO_TARGET_DIR=$WT/target
cd "$WT" || exit 2
git checkout -q -- src
cp -f mutant/demo_mutant$N.rs tests/demo_mutant$N.rs 2>/dev/null
echo "== demo without patch"
cargo test --offline --features serde,base64 --test demo_mutant$N 2>&1 | grep -E "^test result|error(\[|:)" | head -3
git apply mutant/patch$N.diff || { echo "PATCH DOES NOT APPLY"; exit 1; }
echo "== suite with patch"
cargo test --workspace --no-fail-fast --offline 2>&1 | grep -E "^test result" | head -1
echo "== demo with patch"
cargo test --offline --features serde,base64 --test demo_mutant$N 2>&1 | grep -E "^test result|error(\[|:)" | head -3
git checkout -q -- src
