//! Structural generators (DESIGN.md section 4, "G"): complete products of small feature alphabets.

use crate::engine::DetRng;
use crate::oracle::model::*;
use crate::oracle::sha256::sha256;
use elements::secp256k1_zkp as zkp;
use std::sync::OnceLock;

/// Fixed menu of 32-byte payload patterns (the only non-enumerable dimension of the generators).
pub fn pat32(i: usize) -> [u8; 32] {
    let mut a = [0u8; 32];
    match i % 8 {
        0 => a = sha256(b"verif-pattern-0"),
        1 => a = sha256(b"verif-pattern-1"),
        2 => a[0] = 1,
        3 => a[31] = 1,
        4 => {
            for (j, x) in a.iter_mut().enumerate() {
                *x = if j < 4 { 0 } else { (j * 7 + 3) as u8 };
            }
        }
        5 => {
            for (j, x) in a.iter_mut().enumerate() {
                *x = if j >= 28 { 0 } else { (j * 11 + 5) as u8 };
            }
        }
        6 => a = [0xff; 32],
        _ => {}
    }
    a
}

/// Valid curve points and proofs, computed once, deterministically.
pub struct Fixtures {
    /// blinded asset generators, [parity 0x0a, parity 0x0b] x 2
    pub gens: Vec<[u8; 33]>,
    /// value commitments [0x08, 0x09] x 2
    pub comms: Vec<[u8; 33]>,
    /// public keys [0x02, 0x03] x 2
    pub pks: Vec<[u8; 33]>,
    /// range proofs: small, medium(ish)
    pub rps: Vec<Vec<u8>>,
    /// surjection proofs: 1-input, 3-input
    pub sps: Vec<Vec<u8>>,
}

pub fn secp() -> &'static zkp::Secp256k1<zkp::All> {
    static S: OnceLock<zkp::Secp256k1<zkp::All>> = OnceLock::new();
    S.get_or_init(zkp::Secp256k1::new)
}

pub fn sk(i: u64) -> zkp::SecretKey {
    let mut n = 0u64;
    loop {
        let mut m = Vec::new();
        m.extend_from_slice(b"verif-sk");
        m.extend_from_slice(&i.to_le_bytes());
        m.extend_from_slice(&n.to_le_bytes());
        if let Ok(k) = zkp::SecretKey::from_slice(&sha256(&m)) {
            return k;
        }
        n += 1;
    }
}

pub fn tweak(i: u64) -> zkp::Tweak {
    let mut n = 0u64;
    loop {
        let mut m = Vec::new();
        m.extend_from_slice(b"verif-tweak");
        m.extend_from_slice(&i.to_le_bytes());
        m.extend_from_slice(&n.to_le_bytes());
        if let Ok(k) = zkp::Tweak::from_inner(sha256(&m)) {
            return k;
        }
        n += 1;
    }
}

pub fn fixtures() -> &'static Fixtures {
    static F: OnceLock<Fixtures> = OnceLock::new();
    F.get_or_init(|| {
        let s = secp();
        let mut gens: Vec<[u8; 33]> = Vec::new();
        let mut comms: Vec<[u8; 33]> = Vec::new();
        let mut pks: Vec<[u8; 33]> = Vec::new();
        // two of each parity prefix, in prefix order (even, odd, even, odd)
        let mut want = |v: &mut Vec<[u8; 33]>, f: &dyn Fn(u64) -> [u8; 33], lo: u8| {
            let mut per = [0usize; 2];
            let mut i = 0u64;
            let mut found: Vec<(u8, [u8; 33])> = Vec::new();
            while per[0] < 2 || per[1] < 2 {
                let p = f(i);
                let par = (p[0] - lo) as usize;
                if per[par] < 2 {
                    per[par] += 1;
                    found.push((p[0], p));
                }
                i += 1;
            }
            found.sort_by_key(|x| x.0);
            // interleave: even, odd, even, odd
            v.push(found[0].1);
            v.push(found[2].1);
            v.push(found[1].1);
            v.push(found[3].1);
        };
        want(
            &mut gens,
            &|i| {
                let tag = zkp::Tag::from(pat32((i % 3) as usize));
                zkp::Generator::new_blinded(s, tag, tweak(100 + i)).serialize()
            },
            0x0a,
        );
        want(
            &mut comms,
            &|i| {
                let tag = zkp::Tag::from(pat32(0));
                let g = zkp::Generator::new_blinded(s, tag, tweak(200));
                zkp::PedersenCommitment::new(s, 1000 + i, tweak(300 + i), g).serialize()
            },
            0x08,
        );
        want(&mut pks, &|i| zkp::PublicKey::from_secret_key(s, &sk(400 + i)).serialize(), 0x02);

        // range proofs of two sizes
        let tag = zkp::Tag::from(pat32(0));
        let abf = tweak(500);
        let g = zkp::Generator::new_blinded(s, tag, abf);
        let mut rps = Vec::new();
        for (value, min_bits, exp) in [(5u64, 3u8, 0i32), (123_456u64, 36, 0)] {
            let vbf = tweak(501 + value);
            let c = zkp::PedersenCommitment::new(s, value, vbf, g);
            let rp = zkp::RangeProof::new(s, 1, c, value, vbf, b"msg", b"\x51", sk(502), exp, min_bits, g)
                .expect("fixture rangeproof");
            rps.push(rp.serialize());
        }
        // surjection proofs with 1 and 3 inputs
        let mut sps = Vec::new();
        for n in [1usize, 3] {
            let mut rng = DetRng::new(0, 7, n as u64);
            let domain: Vec<(zkp::Generator, zkp::Tag, zkp::Tweak)> = (0..n)
                .map(|j| {
                    let t = zkp::Tag::from(pat32(j));
                    let bf = tweak(600 + j as u64);
                    (zkp::Generator::new_blinded(s, t, bf), t, bf)
                })
                .collect();
            let sp = zkp::SurjectionProof::new(s, &mut rng, zkp::Tag::from(pat32(0)), tweak(700), &domain)
                .expect("fixture surjection proof");
            sps.push(sp.serialize());
        }
        Fixtures { gens, comms, pks, rps, sps }
    })
}

// ------------------------------------------------------------------------------------------------
// confidential fields

pub fn assets() -> Vec<RAsset> {
    let f = fixtures();
    let mut v = vec![RAsset::Null, RAsset::Explicit(pat32(0)), RAsset::Explicit(pat32(2))];
    for g in &f.gens {
        v.push(RAsset::Conf(*g));
    }
    v
}
pub fn values() -> Vec<RValue> {
    let f = fixtures();
    let mut v = vec![RValue::Null, RValue::Explicit(0), RValue::Explicit(0x0102030405060708), RValue::Explicit(u64::MAX)];
    for g in &f.comms {
        v.push(RValue::Conf(*g));
    }
    v
}
pub fn nonces() -> Vec<RNonce> {
    let f = fixtures();
    let mut v = vec![RNonce::Null, RNonce::Explicit(pat32(1)), RNonce::Explicit(pat32(7))];
    for g in &f.pks {
        v.push(RNonce::Conf(*g));
    }
    v
}
/// reduced menus: one representative per kind
pub fn assets_small() -> Vec<RAsset> {
    let f = fixtures();
    vec![RAsset::Null, RAsset::Explicit(pat32(0)), RAsset::Conf(f.gens[0])]
}
pub fn values_small() -> Vec<RValue> {
    let f = fixtures();
    vec![RValue::Null, RValue::Explicit(0x0102030405060708), RValue::Conf(f.comms[1])]
}
pub fn nonces_small() -> Vec<RNonce> {
    let f = fixtures();
    vec![RNonce::Null, RNonce::Explicit(pat32(1)), RNonce::Conf(f.pks[0])]
}

pub fn blob(len: usize, salt: u8) -> Vec<u8> {
    (0..len).map(|i| ((i as u32).wrapping_mul(31).wrapping_add(salt as u32 * 17 + 1) & 0xff) as u8).collect()
}

/// script representatives: empty, p2wpkh, OP_RETURN, 252- and 253-byte (varint boundary)
pub fn scripts() -> Vec<Vec<u8>> {
    let mut p2wpkh = vec![0x00, 0x14];
    p2wpkh.extend_from_slice(&pat32(4)[..20]);
    vec![vec![], p2wpkh, vec![0x6a], blob(252, 1), blob(253, 2)]
}

// ------------------------------------------------------------------------------------------------
// inputs

#[derive(Clone, Copy, Debug, PartialEq, Eq)]
pub enum InKind {
    Coinbase,
    Plain,
    Pegin,
    Issuance,
    Reissuance,
    PeginIssuance,
}
pub const IN_KINDS: [InKind; 6] =
    [InKind::Coinbase, InKind::Plain, InKind::Pegin, InKind::Issuance, InKind::Reissuance, InKind::PeginIssuance];

pub fn issuance_amount_pairs() -> Vec<(RValue, RValue)> {
    let v = values_small();
    let mut out = Vec::new();
    for a in &v {
        for k in &v {
            if *a == RValue::Null && *k == RValue::Null {
                continue;
            }
            out.push((a.clone(), k.clone()));
        }
    }
    out
}

pub fn mk_txin(kind: InKind, vout: u32, script_len: usize, sequence: u32, amounts: &(RValue, RValue), txid_pat: usize) -> RTxIn {
    let (txid, vout) = match kind {
        InKind::Coinbase => ([0u8; 32], 0xffff_ffff),
        _ => (pat32(txid_pat), vout),
    };
    let is_pegin = matches!(kind, InKind::Pegin | InKind::PeginIssuance);
    let issuance = match kind {
        InKind::Issuance | InKind::PeginIssuance => {
            Some(RIssuance { nonce: [0u8; 32], entropy: pat32(5), amount: amounts.0.clone(), keys: amounts.1.clone() })
        }
        InKind::Reissuance => Some(RIssuance {
            nonce: *tweak(800).as_ref(),
            entropy: pat32(1),
            amount: amounts.0.clone(),
            keys: amounts.1.clone(),
        }),
        _ => None,
    };
    RTxIn { txid, vout, is_pegin, script_sig: blob(script_len, 3), sequence, issuance, wit: RInWit::default() }
}

/// the complete product of the TxIn alphabet (without witnesses)
pub fn txins() -> Vec<RTxIn> {
    let mut out = Vec::new();
    for t in txs_input_variants() {
        out.push(t.ins[0].clone());
    }
    let iss = issuance_amount_pairs();
    for kind in IN_KINDS {
        for vout in [0u32, 1, (1 << 30) - 1] {
            if kind == InKind::Coinbase && vout != 0 {
                continue;
            }
            // index 2^30-1 with both flag bits is the wire value 0xffffffff, which *is* the null
            // outpoint index: such a value cannot come out of the decoder (outside C01's domain)
            let vout = if kind == InKind::PeginIssuance && vout == (1 << 30) - 1 { (1 << 30) - 2 } else { vout };
            for sl in [0usize, 1, 252, 253] {
                for seq in [0u32, u32::MAX, u32::MAX - 1] {
                    let has_iss = matches!(kind, InKind::Issuance | InKind::Reissuance | InKind::PeginIssuance);
                    if has_iss {
                        for am in &iss {
                            out.push(mk_txin(kind, vout, sl, seq, am, 0));
                        }
                    } else {
                        out.push(mk_txin(kind, vout, sl, seq, &(RValue::Null, RValue::Null), 0));
                    }
                }
            }
        }
    }
    out
}

/// one representative input per kind (issuances: explicit amount + explicit keys)
pub fn txin_rep(kind: InKind, idx: usize) -> RTxIn {
    let am = (RValue::Explicit(1000 + idx as u64), RValue::Explicit(7));
    mk_txin(kind, idx as u32, [0usize, 1, 25][idx % 3], [u32::MAX, 0, u32::MAX - 1][idx % 3], &am, idx)
}

pub fn witness_items() -> Vec<Vec<Vec<u8>>> {
    vec![vec![], vec![vec![]], vec![vec![1]], vec![blob(253, 9)], vec![vec![1], vec![], vec![2, 3]]]
}

/// all 16 presence combinations of the four input witness fields
pub fn inwits() -> Vec<RInWit> {
    let f = fixtures();
    let mut out = Vec::new();
    for m in 0..16u32 {
        out.push(RInWit {
            amount_rp: if m & 1 != 0 { f.rps[0].clone() } else { vec![] },
            keys_rp: if m & 2 != 0 { f.rps[1].clone() } else { vec![] },
            script_wit: if m & 4 != 0 { vec![vec![1], vec![], blob(253, 9)] } else { vec![] },
            pegin_wit: if m & 8 != 0 { vec![vec![], vec![2, 3]] } else { vec![] },
        });
    }
    out
}

// ------------------------------------------------------------------------------------------------
// outputs

pub fn txouts_small() -> Vec<RTxOut> {
    let mut out = Vec::new();
    let sc = scripts();
    for a in assets_small() {
        for v in values_small() {
            for n in nonces_small() {
                for s in [0usize, 1, 2] {
                    out.push(RTxOut { asset: a.clone(), value: v.clone(), nonce: n.clone(), script: sc[s].clone(), surj: vec![], rp: vec![] });
                }
            }
        }
    }
    out
}

pub fn txouts_full() -> Vec<RTxOut> {
    let mut out = Vec::new();
    for a in assets() {
        for v in values() {
            for n in nonces() {
                for s in scripts() {
                    out.push(RTxOut { asset: a.clone(), value: v.clone(), nonce: n.clone(), script: s, surj: vec![], rp: vec![] });
                }
            }
        }
    }
    out
}

pub fn txout_rep(idx: usize) -> RTxOut {
    let f = fixtures();
    let sc = scripts();
    match idx % 4 {
        0 => RTxOut { asset: RAsset::Explicit(pat32(0)), value: RValue::Explicit(5000 + idx as u64), nonce: RNonce::Null, script: sc[1].clone(), surj: vec![], rp: vec![] },
        1 => RTxOut { asset: RAsset::Conf(f.gens[1]), value: RValue::Conf(f.comms[0]), nonce: RNonce::Conf(f.pks[1]), script: sc[1].clone(), surj: vec![], rp: vec![] },
        2 => RTxOut { asset: RAsset::Explicit(pat32(2)), value: RValue::Explicit(0), nonce: RNonce::Null, script: sc[2].clone(), surj: vec![], rp: vec![] },
        _ => RTxOut { asset: RAsset::Explicit(pat32(0)), value: RValue::Explicit(77), nonce: RNonce::Null, script: vec![], surj: vec![], rp: vec![] },
    }
}

// ------------------------------------------------------------------------------------------------
// transactions

pub const LOCKTIMES: [u32; 4] = [0, 499_999_999, 500_000_000, u32::MAX];
pub const VERSIONS: [u32; 3] = [0, 2, u32::MAX];

/// Transactions covering every combination of "which of the six witness fields is non-empty
/// somewhere" (64 classes) for each (n_in, n_out) in 1..=2 x 1..=2, with the witness placed at every
/// position; plus the degenerate counts.
pub fn txs_witness_classes() -> Vec<RTx> {
    let f = fixtures();
    let mut out = Vec::new();
    for n_in in 1..=2usize {
        for n_out in 1..=2usize {
            for mask in 0..64u32 {
                for pos_in in 0..n_in {
                    for pos_out in 0..n_out {
                        let mut ins: Vec<RTxIn> = (0..n_in)
                            .map(|i| txin_rep([InKind::Plain, InKind::Issuance, InKind::Pegin][(i + n_out) % 3], i))
                            .collect();
                        let mut outs: Vec<RTxOut> = (0..n_out).map(|i| txout_rep(i + n_in)).collect();
                        let w = &mut ins[pos_in].wit;
                        if mask & 1 != 0 {
                            w.amount_rp = f.rps[0].clone();
                        }
                        if mask & 2 != 0 {
                            w.keys_rp = f.rps[1].clone();
                        }
                        if mask & 4 != 0 {
                            w.script_wit = vec![vec![1], vec![]];
                        }
                        if mask & 8 != 0 {
                            w.pegin_wit = vec![vec![9; 3]];
                        }
                        if mask & 16 != 0 {
                            outs[pos_out].surj = f.sps[0].clone();
                        }
                        if mask & 32 != 0 {
                            outs[pos_out].rp = f.rps[0].clone();
                        }
                        out.push(RTx {
                            version: VERSIONS[(mask as usize) % 3],
                            lock_time: LOCKTIMES[(mask as usize / 3) % 4],
                            ins,
                            outs,
                        });
                    }
                }
            }
        }
    }
    out
}

/// Single-input transactions over the unusual-but-decodable input shapes: the all-ones index with a NON-zero
/// txid (not a null outpoint, yet flag-free), and every (amount, keys) pair of a new issuance / reissuance
/// including the token-only ones (null amount, non-null keys), with and without the pegin flag.
pub fn txs_input_variants() -> Vec<RTx> {
    let mut out = Vec::new();
    let mut push = |i: RTxIn| out.push(RTx { version: 2, lock_time: 0, ins: vec![i], outs: vec![txout_rep(0), txout_rep(3)] });
    for tp in [0usize, 1, 6] {
        let mut i = mk_txin(InKind::Plain, 0, 1, 0xffff_fffe, &(RValue::Null, RValue::Null), tp);
        i.vout = 0xffff_ffff;
        push(i);
    }
    for kind in [InKind::Issuance, InKind::Reissuance, InKind::PeginIssuance] {
        for am in issuance_amount_pairs() {
            push(mk_txin(kind, 3, 0, 0xffff_ffff, &am, 2));
        }
    }
    out
}

/// Transactions whose ONLY witness data is one of the degenerate stacks ([[]], [[],[]], [[0]]) in the script
/// or pegin witness of one input (pegin witness on pegin inputs), for 1..2 inputs.
pub fn txs_degenerate_witness() -> Vec<RTx> {
    let mut out = Vec::new();
    let stacks: Vec<Vec<Vec<u8>>> = vec![vec![vec![]], vec![vec![], vec![]], vec![vec![0]], vec![vec![]; 253]];
    for n_in in 1..=2usize {
        for pos in 0..n_in {
            for st in &stacks {
                for which in 0..2 {
                    let mut ins: Vec<RTxIn> = (0..n_in).map(|i| txin_rep(if which == 1 { InKind::Pegin } else { InKind::Plain }, i)).collect();
                    if which == 0 {
                        ins[pos].wit.script_wit = st.clone();
                    } else {
                        ins[pos].wit.pegin_wit = st.clone();
                    }
                    out.push(RTx { version: 2, lock_time: 0, ins, outs: vec![txout_rep(0)] });
                }
            }
        }
    }
    out
}

/// Shape product: 0..=3 inputs x 0..=3 outputs, input kinds cycled through all 6^n assignments for
/// n<=2 (and a covering subset for 3), versions/locktimes menu.
pub fn txs_shapes() -> Vec<RTx> {
    let mut out = Vec::new();
    for n_in in 0..=3usize {
        let radices = vec![6usize; n_in];
        crate::engine::product(&radices, |kinds| {
            if n_in == 3 && !(kinds[0] <= kinds[1] || kinds[2] == 0) {
                return; // covering subset for 3 inputs
            }
            for n_out in 0..=3usize {
                for (vi, &version) in VERSIONS.iter().enumerate() {
                    let lt = LOCKTIMES[(vi + n_out + n_in) % 4];
                    let ins: Vec<RTxIn> = kinds.iter().enumerate().map(|(i, &k)| txin_rep(IN_KINDS[k], i)).collect();
                    let outs: Vec<RTxOut> = (0..n_out).map(|i| txout_rep(i + vi)).collect();
                    out.push(RTx { version, lock_time: lt, ins, outs });
                }
            }
        });
    }
    // byte strings that are also valid text in every byte field (scripts, witness items)
    for (k, t) in TEXTY.iter().enumerate() {
        let t2 = TEXTY[(k + 1) % TEXTY.len()];
        let mut i = txin_rep(IN_KINDS[k % 6], 0);
        i.script_sig = t.to_vec();
        i.wit.script_wit = vec![t.to_vec(), t2.to_vec()];
        if i.is_pegin {
            i.wit.pegin_wit = vec![t2.to_vec()];
        }
        let mut o = txout_rep(k);
        o.script = t2.to_vec();
        out.push(RTx { version: 2, lock_time: 0, ins: vec![i], outs: vec![o] });
    }
    out
}

/// Transactions with element counts and byte lengths on both sides of the varint boundaries.
pub fn txs_varint_boundaries(thorough: bool) -> Vec<RTx> {
    let mut out = Vec::new();
    let base_in = txin_rep(InKind::Plain, 0);
    let base_out = txout_rep(0);
    for &n in &[252usize, 253] {
        out.push(RTx { version: 2, lock_time: 0, ins: vec![base_in.clone(); n], outs: vec![base_out.clone()] });
        out.push(RTx { version: 2, lock_time: 0, ins: vec![base_in.clone()], outs: vec![base_out.clone(); n] });
    }
    let mut lens = vec![252usize, 253, 65535, 65536];
    if thorough {
        lens.push(4_000_000);
    }
    for &l in &lens {
        // script_sig
        let mut i = base_in.clone();
        i.script_sig = blob(l, 4);
        out.push(RTx { version: 2, lock_time: 0, ins: vec![i], outs: vec![base_out.clone()] });
        // script_pubkey
        let mut o = base_out.clone();
        o.script = blob(l, 5);
        out.push(RTx { version: 2, lock_time: 0, ins: vec![base_in.clone()], outs: vec![o] });
        // witness item length
        let mut i = base_in.clone();
        i.wit.script_wit = vec![blob(l, 6)];
        out.push(RTx { version: 2, lock_time: 0, ins: vec![i], outs: vec![base_out.clone()] });
        let mut i = txin_rep(InKind::Pegin, 0);
        i.wit.pegin_wit = vec![vec![1], blob(l, 7)];
        out.push(RTx { version: 2, lock_time: 0, ins: vec![i], outs: vec![base_out.clone()] });
    }
    // witness stack counts
    for &n in &[252usize, 253, 1000] {
        let mut i = base_in.clone();
        i.wit.script_wit = vec![vec![7]; n];
        out.push(RTx { version: 2, lock_time: 0, ins: vec![i], outs: vec![base_out.clone()] });
    }
    out
}

// ------------------------------------------------------------------------------------------------
// dynafed parameters, headers, blocks

pub fn full_params(thorough: bool) -> Vec<RFull> {
    let lens: &[usize] = if thorough { &[0, 1, 75, 76, 253] } else { &[0, 1, 76, 253] };
    let limits = [0u32, 1, u32::MAX];
    let exts: Vec<Vec<Vec<u8>>> = vec![
        vec![],
        vec![vec![]],
        vec![vec![5, 6], vec![7]],
        vec![blob(33, 1), vec![], blob(33, 2)],
        vec![vec![0]],
    ];
    let mut out = Vec::new();
    for &a in lens {
        for &l in &limits {
            for &b in lens {
                for &c in lens {
                    for e in &exts {
                        out.push(RFull {
                            signblockscript: blob(a, 11),
                            limit: l,
                            fedpeg_program: blob(b, 12),
                            fedpegscript: blob(c, 13),
                            ext: e.clone(),
                        });
                    }
                }
            }
        }
    }
    // byte strings that happen to be valid UTF-8 / hex text (self-describing serde formats may treat text and bytes alike)
    for (k, t) in TEXTY.iter().enumerate() {
        out.push(RFull {
            signblockscript: t.to_vec(),
            limit: k as u32,
            fedpeg_program: TEXTY[(k + 1) % TEXTY.len()].to_vec(),
            fedpegscript: TEXTY[(k + 2) % TEXTY.len()].to_vec(),
            ext: vec![TEXTY[(k + 3) % TEXTY.len()].to_vec(), t.to_vec()],
        });
    }
    out
}

/// byte contents that are also valid text: hex digits (even and odd count), upper-case hex, plain ASCII, UTF-8, base64-like
pub const TEXTY: [&[u8]; 8] = [b"ab", b"deadbeef", b"00", b"CAFE", b"abc", b"hello world", "\u{e9}\u{20ac}".as_bytes(), b"AAEC"];

pub fn params_menu() -> Vec<RParams> {
    let f1 = RFull { signblockscript: vec![0x51], limit: 2, fedpeg_program: vec![0x53], fedpegscript: vec![0x54], ext: vec![vec![5, 6], vec![7]] };
    let f2 = RFull { signblockscript: blob(253, 1), limit: u32::MAX, fedpeg_program: vec![], fedpegscript: blob(76, 2), ext: vec![] };
    vec![
        RParams::Null,
        RParams::Compact { signblockscript: vec![0x51], limit: 2, elided_root: pat32(0) },
        RParams::Compact { signblockscript: vec![], limit: 0, elided_root: [0u8; 32] },
        RParams::Full(f1),
        RParams::Full(f2),
        RParams::Full(RFull { signblockscript: b"ab".to_vec(), limit: 7, fedpeg_program: b"00".to_vec(), fedpegscript: b"deadbeef".to_vec(), ext: vec![b"cafe".to_vec(), b"0f".to_vec()] }),
    ]
}

pub fn headers() -> Vec<RHeader> {
    let mut out = Vec::new();
    let versions = [0u32, 0x2000_0000, 0x7fff_ffff];
    let mut k = 0usize;
    for &cl in &[0usize, 1, 253] {
        for &sl in &[0usize, 1, 253] {
            for &v in &versions {
                out.push(RHeader {
                    version: v,
                    prev: pat32(k),
                    merkle_root: pat32(k + 1),
                    time: [0, 1_600_000_000, u32::MAX][k % 3],
                    height: [0, 1, u32::MAX][(k / 3) % 3],
                    ext: RExt::Proof { challenge: blob(cl, 21), solution: blob(sl, 22) },
                });
                k += 1;
            }
        }
    }
    for (j, t) in TEXTY.iter().enumerate() {
        out.push(RHeader { version: 1, prev: pat32(k), merkle_root: pat32(k + 2), time: 1, height: j as u32, ext: RExt::Proof { challenge: t.to_vec(), solution: TEXTY[(j + 1) % TEXTY.len()].to_vec() } });
        k += 1;
    }
    let pm = params_menu();
    let wits: Vec<Vec<Vec<u8>>> = vec![vec![], vec![vec![]], vec![vec![1], vec![2, 3]], vec![blob(253, 31), vec![7]], vec![vec![9], blob(252, 32)], vec![b"abcd".to_vec(), b"ff".to_vec()]];
    for c in &pm {
        for p in &pm {
            for w in &wits {
                out.push(RHeader {
                    version: versions[k % 3],
                    prev: pat32(k),
                    merkle_root: pat32(k + 3),
                    time: 1_600_000_000 + k as u32,
                    height: k as u32,
                    ext: RExt::Dynafed { current: c.clone(), proposed: p.clone(), witness: w.clone() },
                });
                k += 1;
            }
        }
    }
    out
}
