//! Structural generators (see DESIGN.md section 4, "G").

/// Fixed menu of 32-byte payload patterns (the only non-enumerable dimension of the generators).
pub fn pat32(i: usize) -> [u8; 32] {
    let mut a = [0u8; 32];
    match i % 8 {
        0 => {}
        1 => a = [0xff; 32],
        2 => a[0] = 1,
        3 => a[31] = 1,
        4 => {
            for (j, x) in a.iter_mut().enumerate() {
                *x = if j < 4 { 0 } else { (j * 7 + 3) as u8 };
            }
        }
        5 => {
            for (j, x) in a.iter_mut().enumerate() {
                *x = if j >= 28 { 0 } else { (j * 11 + 5) as u8 };
            }
        }
        6 => a = crate::oracle::sha256::sha256(b"verif-pattern-6"),
        _ => a = crate::oracle::sha256::sha256(b"verif-pattern-7"),
    }
    a
}
