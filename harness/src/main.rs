//! `mc <ID> [--tier quick|thorough] [--replay <file>]`
//! Bounded exhaustive exploration of rust-elements behaviours, one module per property.

#![allow(clippy::all)]
#![allow(dead_code)]

mod engine;
mod gen;
mod oracle;
mod props;
mod psetgen;

use engine::{Report, Tier};
use serde_json::{json, Value};
use std::time::Instant;

#[global_allocator]
static GLOBAL: engine::alloc::Counting = engine::alloc::Counting;

type RunFn = fn(&Report);
type ReplayFn = fn(&Value) -> String;

fn registry() -> Vec<(&'static str, RunFn, Option<ReplayFn>)> {
    props::registry()
}

fn usage() -> ! {
    eprintln!("usage: mc <ID> [--tier quick|thorough] [--replay <file>]");
    std::process::exit(2);
}

fn main() {
    let args: Vec<String> = std::env::args().skip(1).collect();
    if args.is_empty() {
        usage();
    }
    let id = args[0].clone();
    let mut tier = match std::env::var("VERIF_TIER").ok().as_deref() {
        Some("thorough") => Tier::Thorough,
        _ => Tier::Quick,
    };
    let mut replay: Option<String> = None;
    let mut i = 1;
    while i < args.len() {
        match args[i].as_str() {
            "--tier" => {
                i += 1;
                tier = match args.get(i).map(|s| s.as_str()) {
                    Some("quick") => Tier::Quick,
                    Some("thorough") => Tier::Thorough,
                    _ => usage(),
                };
            }
            "--replay" => {
                i += 1;
                replay = Some(args.get(i).cloned().unwrap_or_else(|| usage()));
            }
            _ => usage(),
        }
        i += 1;
    }
    let seed: u64 = std::env::var("VERIF_SEED").ok().and_then(|s| s.parse().ok()).unwrap_or(0);
    let reg = registry();
    let entry = match reg.iter().find(|e| e.0 == id) {
        Some(e) => e,
        None => {
            eprintln!("unknown property id {}", id);
            std::process::exit(2);
        }
    };
    engine::install_panic_hook();

    // crash isolation: the exploration itself runs in a child process
    if replay.is_none() && std::env::var("MC_CHILD").is_err() {
        let _ = std::fs::create_dir_all("/verif/.build");
        match engine::crash::run_child(&args) {
            Ok(code) => std::process::exit(code),
            Err(c) if c.signal == 9 || c.signal == 15 => {
                // SIGKILL / SIGTERM come from outside (OOM killer, a timeout, an operator), never from the crate: a
                // machinery failure, not a verdict
                eprintln!("MACHINERY: the exploration process was terminated by signal {} from outside (out of memory or a time limit?); no verdict", c.signal);
                std::process::exit(2);
            }
            Err(c) => {
                let report = Report::new(entry.0, tier, seed);
                report.eval(1);
                report.state(1);
                report.trans(1);
                report.nontrivial(1);
                report.nontrivial(2);
                report.not_exhaustive();
                let signame = match c.signal { 11 => "SIGSEGV", 6 => "SIGABRT", 7 => "SIGBUS", 4 => "SIGILL", 8 => "SIGFPE", 9 => "SIGKILL", _ => "signal" };
                report.violation(
                    format!("crash/{}/{}", signame, c.label),
                    json!({"crash_label": c.label, "hex": engine::hex(&c.input), "signal": c.signal}),
                    format!("the process was killed by {} while the crate was processing this input ({} bytes); exploration stopped there", signame, c.input.len()),
                );
                report.sample(json!({"crash": signame}));
                report.assume("the run was cut short by a fatal signal in the crate or its C dependency; coverage counts are not meaningful");
                finish(&report, 0.0);
            }
        }
    }
    if std::env::var("MC_CHILD").is_ok() {
        engine::crash::install_child();
    }

    if let Some(path) = replay {
        let txt = std::fs::read_to_string(&path).unwrap_or_else(|e| {
            eprintln!("cannot read {}: {}", path, e);
            std::process::exit(2)
        });
        let v: Value = serde_json::from_str(&txt).unwrap_or_else(|e| {
            eprintln!("bad replay file: {}", e);
            std::process::exit(2)
        });
        let f = match entry.2 {
            Some(f) => f,
            None => {
                eprintln!("property {} has no replay function", id);
                std::process::exit(2);
            }
        };
        let a = f(&v["case"]);
        let b = f(&v["case"]);
        if a != b {
            eprintln!("MACHINERY: replay is not deterministic:\n{}\n{}", a, b);
            std::process::exit(2);
        }
        println!("replay of {} (class {}):\n{}", path, v["class"], a);
        if a.starts_with("VIOLATES") {
            println!("VIOLATION property={} replay={}", id, path);
            std::process::exit(1);
        }
        std::process::exit(0);
    }

    // oracle self-tests shared by everything
    match oracle::sha256::selftest() {
        Ok(_) => {}
        Err(e) => {
            eprintln!("MACHINERY: {}", e);
            std::process::exit(2);
        }
    }

    let report = Report::new(entry.0, tier, seed);
    let t0 = Instant::now();
    let run = entry.1;
    let res = engine::guard(|| run(&report));
    if let Err(p) = res {
        eprintln!("MACHINERY: engine panicked outside a monitored call: {}", p);
        std::process::exit(3);
    }
    let wall = t0.elapsed().as_secs_f64();
    finish(&report, wall);
}

fn load_known() -> Value {
    let p = "/verif/known_findings.json";
    match std::fs::read_to_string(p) {
        Ok(t) => serde_json::from_str(&t).unwrap_or_else(|e| {
            eprintln!("MACHINERY: {} is not valid JSON: {}", p, e);
            std::process::exit(2)
        }),
        Err(_) => json!({"findings": [], "fixed": []}),
    }
}

fn finish(r: &Report, wall: f64) {
    let known = load_known();
    let viols = r.take_violations();
    let mut unknown = Vec::new();
    let mut known_hits = Vec::new();
    for (n, v) in &viols {
        let hit = known["findings"].as_array().and_then(|a| {
            a.iter().find(|f| {
                f["property"].as_str() == Some(r.id) && f["class"].as_str() == Some(v.class.as_str())
            })
        });
        match hit {
            Some(f) => known_hits.push((n, v, f["what"].as_str().unwrap_or("").to_string())),
            None => unknown.push((n, v)),
        }
    }
    let merrs = r.machinery_errors.lock().unwrap().clone();

    // replay artefacts for unknown violations
    let mut replay_paths = Vec::new();
    for (n, v) in &unknown {
        let h = engine::fnv(v.class.as_bytes());
        let out_dir = std::env::var("VERIF_OUT_DIR").unwrap_or_else(|_| "/verif".to_string());
        let path = format!("{}/replays/{}-{:016x}.json", out_dir, r.id, h);
        let body = json!({
            "property": r.id, "class": v.class, "count": n, "case": v.case, "detail": v.detail,
        });
        let _ = std::fs::create_dir_all(format!("{}/replays", out_dir));
        let _ = std::fs::write(&path, serde_json::to_string_pretty(&body).unwrap());
        replay_paths.push(path);
    }

    let states = r.states.load(std::sync::atomic::Ordering::Relaxed);
    let transitions = r.transitions.load(std::sync::atomic::Ordering::Relaxed);
    let evals = r.evaluations.load(std::sync::atomic::Ordering::Relaxed);
    let mut cov = serde_json::Map::new();
    cov.insert("states".into(), json!(states.max(0)));
    cov.insert("transitions".into(), json!(transitions));
    cov.insert("traces_validated_against_impl".into(), json!(r.traces.load(std::sync::atomic::Ordering::Relaxed)));
    cov.insert("evaluations".into(), json!(evals));
    cov.insert("distinct_nontrivial".into(), json!(r.nontrivial_count()));
    cov.insert("rule".into(), json!(r.rule.lock().unwrap().clone()));
    cov.insert("samples".into(), json!(r.samples()));
    cov.insert("exhaustive".into(), json!(*r.exhaustive.lock().unwrap() && merrs.is_empty()));
    cov.insert("accepted".into(), json!(r.accepted.load(std::sync::atomic::Ordering::Relaxed)));
    cov.insert("rejected".into(), json!(r.rejected.load(std::sync::atomic::Ordering::Relaxed)));
    cov.insert("distinct_outcomes".into(), json!(r.outcomes_count()));
    cov.insert(
        "known_findings_hit".into(),
        json!(known_hits.iter().map(|(n, v, _)| json!({"class": v.class, "count": n})).collect::<Vec<_>>()),
    );
    cov.insert(
        "violation_classes".into(),
        json!(unknown.iter().map(|(n, v)| json!({"class": v.class, "count": n, "detail": v.detail})).collect::<Vec<_>>()),
    );
    for (k, v) in r.extra.lock().unwrap().iter() {
        cov.insert(k.clone(), v.clone());
    }
    let ev = json!({
        "property_id": r.id,
        "tier": r.tier.name(),
        "seed": r.seed,
        "level": "model_checking",
        "coverage": Value::Object(cov),
        "assumptions": r.assumptions.lock().unwrap().clone(),
        "wall_s": (wall * 100.0).round() / 100.0,
        "violations": unknown.len(),
        "machinery_errors": merrs,
    });
    // VERIF_OUT_DIR redirects evidence/replays (used for background experiments; registered commands never set it)
    let out_dir = std::env::var("VERIF_OUT_DIR").unwrap_or_else(|_| "/verif".to_string());
    let _ = std::fs::create_dir_all(format!("{}/evidence", out_dir));
    let path = format!("{}/evidence/{}.json", out_dir, r.id);
    std::fs::write(&path, serde_json::to_string_pretty(&ev).unwrap() + "\n").expect("write evidence");

    println!(
        "{} tier={} states={} transitions={} evaluations={} distinct_nontrivial={} outcomes={} wall={:.1}s",
        r.id,
        r.tier.name(),
        states,
        transitions,
        evals,
        r.nontrivial_count(),
        r.outcomes_count(),
        wall
    );
    for (n, v, what) in &known_hits {
        println!("KNOWN-FINDING: property={} class={} count={} {}", r.id, v.class, n, what);
    }
    if !merrs.is_empty() {
        for e in &merrs {
            eprintln!("MACHINERY: {}", e);
        }
        std::process::exit(2);
    }
    if !unknown.is_empty() {
        for ((n, v), p) in unknown.iter().zip(replay_paths.iter()) {
            println!("  class={} count={} detail={}", v.class, n, v.detail);
            println!("VIOLATION property={} replay={}", r.id, p);
        }
        std::process::exit(1);
    }
    if states == 0 || transitions == 0 || r.nontrivial_count() < 2 {
        eprintln!("MACHINERY: vacuous run (states={}, transitions={}, nontrivial={})", states, transitions, r.nontrivial_count());
        std::process::exit(2);
    }
    std::process::exit(0);
}
