//! C16 — scripts built by the builder parse back exactly; templates and addresses agree.
//! (i) all builder programs up to a length bound over an operation alphabet, against a reference
//! model of the builder; (ii) read_scriptint on all short byte strings, integer round trips;
//! (iii) template predicates / Address::from_script on every script of the form
//! [opcode][push length][payload] for all 65536 header bytes x every length 0..45, and
//! single-byte variations of the p2pkh / p2sh templates.

use crate::engine::{fnv, guard, hex_short, Report};
use crate::gen;
use elements::opcodes;
use elements::script::{self, Builder, Instruction};
use elements::{Address, AddressParams, Script};
use rayon::prelude::*;
use serde::{Deserialize, Serialize};
use serde_json::{json, Value};
use std::str::FromStr;

#[derive(Clone, Debug, PartialEq, Eq, Serialize, Deserialize)]
pub enum BOp {
    Op(u8),
    Int(i64),
    ScriptInt(i64),
    /// (length, content salt)
    Slice(usize, u8),
    Verify,
}

#[derive(Clone, Debug, PartialEq, Eq)]
pub enum RIns {
    Push(Vec<u8>),
    Op(u8),
}

/// reference script-number encoding (CScriptNum::serialize)
pub fn ref_scriptnum(n: i64) -> Vec<u8> {
    if n == 0 {
        return vec![];
    }
    let neg = n < 0;
    let mut abs = n.unsigned_abs();
    let mut v = Vec::new();
    while abs > 0 {
        v.push((abs & 0xff) as u8);
        abs >>= 8;
    }
    if v.last().unwrap() & 0x80 != 0 {
        v.push(if neg { 0x80 } else { 0 });
    } else if neg {
        *v.last_mut().unwrap() |= 0x80;
    }
    v
}

/// reference script-number decoding (no minimality requirement), None if longer than 4 bytes
pub fn ref_read_scriptint(v: &[u8]) -> Option<i64> {
    if v.len() > 4 {
        return None;
    }
    if v.is_empty() {
        return Some(0);
    }
    let mut r: i64 = 0;
    for (i, b) in v.iter().enumerate() {
        let b = if i == v.len() - 1 { b & 0x7f } else { *b };
        r |= (b as i64) << (8 * i);
    }
    if v[v.len() - 1] & 0x80 != 0 {
        r = -r;
    }
    Some(r)
}

fn ref_push(out: &mut Vec<u8>, d: &[u8]) {
    let n = d.len();
    if n < 0x4c {
        out.push(n as u8);
    } else if n <= 0xff {
        out.push(0x4c);
        out.push(n as u8);
    } else if n <= 0xffff {
        out.push(0x4d);
        out.extend_from_slice(&(n as u16).to_le_bytes());
    } else {
        out.push(0x4e);
        out.extend_from_slice(&(n as u32).to_le_bytes());
    }
    out.extend_from_slice(d);
}

fn verify_form(op: u8) -> Option<u8> {
    match op {
        0x87 => Some(0x88), // EQUAL -> EQUALVERIFY
        0x9c => Some(0x9d), // NUMEQUAL -> NUMEQUALVERIFY
        0xac => Some(0xad), // CHECKSIG -> CHECKSIGVERIFY
        0xae => Some(0xaf), // CHECKMULTISIG -> CHECKMULTISIGVERIFY
        0xc1 => Some(0xc2), // CHECKSIGFROMSTACK -> CHECKSIGFROMSTACKVERIFY
        _ => None,
    }
}

/// reference model of the builder: (bytes, instruction list, contains a push that
/// instructions_minimal is documented to reject)
pub fn ref_build(prog: &[BOp]) -> (Vec<u8>, Vec<RIns>, bool) {
    let mut bytes = Vec::new();
    let mut ins: Vec<RIns> = Vec::new();
    let mut last_opcode: Option<u8> = None;
    let mut nonminimal = false;
    fn op(bytes: &mut Vec<u8>, ins: &mut Vec<RIns>, last: &mut Option<u8>, b: u8) {
        bytes.push(b);
        if b == 0 {
            ins.push(RIns::Push(vec![]));
        } else {
            ins.push(RIns::Op(b));
        }
        *last = Some(b);
    }
    for o in prog {
        match o {
            BOp::Op(b) => op(&mut bytes, &mut ins, &mut last_opcode, *b),
            BOp::Int(n) if *n == 0 => op(&mut bytes, &mut ins, &mut last_opcode, 0x00),
            BOp::Int(n) if *n == -1 || (1..=16).contains(n) => op(&mut bytes, &mut ins, &mut last_opcode, (0x50 + *n) as u8),
            BOp::Int(n) | BOp::ScriptInt(n) => {
                let d = ref_scriptnum(*n);
                if d.len() == 1 && (d[0] == 0x81 || (1..=16).contains(&d[0])) {
                    nonminimal = true;
                }
                ref_push(&mut bytes, &d);
                ins.push(RIns::Push(d));
                last_opcode = None;
            }
            BOp::Slice(len, salt) => {
                let d = slice_content(*len, *salt);
                if d.len() == 1 && (d[0] == 0x81 || (1..=16).contains(&d[0])) {
                    nonminimal = true;
                }
                ref_push(&mut bytes, &d);
                ins.push(RIns::Push(d));
                last_opcode = None;
            }
            BOp::Verify => match last_opcode.and_then(verify_form) {
                Some(vf) => {
                    bytes.pop();
                    ins.pop();
                    op(&mut bytes, &mut ins, &mut last_opcode, vf);
                }
                None => op(&mut bytes, &mut ins, &mut last_opcode, 0x69),
            },
        }
    }
    (bytes, ins, nonminimal)
}

pub fn slice_content(len: usize, salt: u8) -> Vec<u8> {
    if len == 1 {
        // one-byte pushes: interesting values
        return vec![[0x00u8, 0x01, 0x10, 0x11, 0x81, 0x80, 0xff, 0x4f][salt as usize % 8]];
    }
    if salt >= 100 {
        // multi-byte pushes whose content is a (non-minimally encoded) small script number or a negative zero: they are
        // data, not numbers, and no minimal-push rule applies to them
        let k = (salt - 100) as usize;
        match len {
            2 => return [[5u8, 0], [0x10, 0], [1, 0x80], [0, 0x80], [0x81, 0], [0, 0]][k % 6].to_vec(),
            3 => return [[16u8, 0, 0], [1, 0, 0x80], [0, 0, 0x80]][k % 3].to_vec(),
            4 => return [[1u8, 0, 0, 0], [0x0f, 0, 0, 0x80]][k % 2].to_vec(),
            _ => {}
        }
    }
    gen::blob(len, salt)
}

fn lib_build(prog: &[BOp]) -> Script {
    let mut b = Builder::new();
    for o in prog {
        b = match o {
            BOp::Op(x) => b.push_opcode(opcodes::All::from(*x)),
            BOp::Int(n) => b.push_int(*n),
            BOp::ScriptInt(n) => b.push_scriptint(*n),
            BOp::Slice(len, salt) => b.push_slice(&slice_content(*len, *salt)),
            BOp::Verify => b.push_verify(),
        };
    }
    b.into_script()
}

fn collect(it: script::Instructions) -> Result<Vec<RIns>, String> {
    let mut v = Vec::new();
    for i in it {
        match i {
            Ok(Instruction::PushBytes(d)) => v.push(RIns::Push(d.to_vec())),
            Ok(Instruction::Op(o)) => v.push(RIns::Op(o.into_u8())),
            Err(e) => return Err(format!("{:?}", e)),
        }
    }
    Ok(v)
}

fn opkind(o: &BOp) -> &'static str {
    match o {
        BOp::Op(_) => "op",
        BOp::Int(_) => "int",
        BOp::ScriptInt(_) => "scriptint",
        BOp::Slice(..) => "slice",
        BOp::Verify => "verify",
    }
}

pub fn check_program(r: &Report, prog: &[BOp]) {
    r.eval(1);
    r.state(1);
    r.trans(prog.len() as u64);
    let (eb, ei, nonmin) = ref_build(prog);
    let shape: Vec<&str> = prog.iter().map(opkind).collect();
    let shape = shape.join("+");
    let case = || serde_json::to_value(prog).unwrap();
    let res = guard(|| {
        let s = lib_build(prog);
        let a = collect(s.instructions());
        let m = collect(s.instructions_minimal());
        (s, a, m)
    });
    match res {
        Err(p) => r.violation(format!("builder/panic/{}", shape), case(), p),
        Ok((s, a, m)) => {
            r.trace(1);
            if s.as_bytes() != &eb[..] {
                r.violation(format!("builder/bytes-differ/{}", shape), case(), format!("lib={} ref={}", hex_short(s.as_bytes()), hex_short(&eb)));
            }
            match a {
                Ok(list) if list == ei => {}
                Ok(list) => r.violation(format!("builder/instructions-differ/{}", shape), case(), format!("iterated {:?} expected {:?}", short(&list), short(&ei))),
                Err(e) => r.violation(format!("builder/instructions-error/{}", shape), case(), e),
            }
            if !nonmin {
                match m {
                    Ok(list) if list == ei => {}
                    Ok(_) => r.violation(format!("builder/minimal-instructions-differ/{}", shape), case(), "instructions_minimal yields a different sequence"),
                    Err(e) => r.violation(format!("builder/push-not-minimal/{}", shape), case(), format!("instructions_minimal rejects builder output: {}", e)),
                }
            }
            r.nontrivial(fnv(&eb) ^ fnv(shape.as_bytes()));
        }
    }
}

fn short(l: &[RIns]) -> Vec<String> {
    l.iter()
        .map(|i| match i {
            RIns::Op(o) => format!("op{:02x}", o),
            RIns::Push(d) => format!("push[{}]{}", d.len(), crate::engine::hex(&d[..d.len().min(6)])),
        })
        .collect()
}

pub const INTS: [i64; 45] = [
    0, 1, -1, 2, 15, 16, 17, -2, -16, -17, 127, 128, 129, -127, -128, -129, 255, 256, -255, -256, 32767, 32768, -32767, -32768, 65535,
    65536, 8388607, 8388608, -8388607, -8388608, 16777215, 16777216, 2147483647, -2147483647, 2147483648, -2147483648, 4294967295,
    4294967296, 549755813887, 549755813888, -549755813888, i64::MAX, -i64::MAX, 1 << 62, 75,
];

fn alphabet(full: bool) -> Vec<BOp> {
    let mut a = Vec::new();
    if full {
        a.push(BOp::Op(0));
        for b in 0x4fu8..=0xff {
            a.push(BOp::Op(b));
        }
        for n in INTS {
            a.push(BOp::Int(n));
        }
        for n in INTS {
            a.push(BOp::ScriptInt(n));
        }
        for l in [0usize, 1, 2, 75, 76, 77, 255, 256, 257, 65535, 65536, 65537] {
            for s in 0..2u8 {
                a.push(BOp::Slice(l, s));
            }
        }
        for s in 2..8u8 {
            a.push(BOp::Slice(1, s));
        }
        for (l, n) in [(2usize, 6u8), (3, 3), (4, 2)] {
            for k in 0..n {
                a.push(BOp::Slice(l, 100 + k));
            }
        }
    } else {
        for b in [0x00u8, 0x51, 0x69, 0x87, 0x88, 0x9c, 0xac, 0xae, 0xc1, 0xc2, 0x6a, 0xff] {
            a.push(BOp::Op(b));
        }
        for n in [0i64, 1, -1, 16, 17, 128, -128, 32768] {
            a.push(BOp::Int(n));
        }
        for n in [0i64, 5, -1, 255] {
            a.push(BOp::ScriptInt(n));
        }
        for (l, s) in [(0usize, 0u8), (1, 1), (1, 4), (2, 100), (3, 101), (75, 0), (76, 0), (256, 1)] {
            a.push(BOp::Slice(l, s));
        }
    }
    a.push(BOp::Verify);
    a
}

// ------------------------------------------------------------------------------------------------
// templates

#[derive(Clone, Copy, PartialEq, Eq, Debug, Default)]
struct Preds {
    p2pkh: bool,
    p2sh: bool,
    witprog: bool,
    v0_wpkh: bool,
    v0_wsh: bool,
    v1_tr: bool,
    v1plus: bool,
}

fn ref_preds(b: &[u8]) -> Preds {
    let l = b.len();
    let wit = |lo: u8, hi: u8| l >= 4 && l <= 42 && (b[0] >= lo && b[0] <= hi) && b[1] >= 2 && b[1] <= 40 && l == b[1] as usize + 2;
    Preds {
        p2pkh: l == 25 && b[0] == 0x76 && b[1] == 0xa9 && b[2] == 0x14 && b[23] == 0x88 && b[24] == 0xac,
        p2sh: l == 23 && b[0] == 0xa9 && b[1] == 0x14 && b[22] == 0x87,
        witprog: wit(0, 0) || wit(0x51, 0x60),
        v0_wpkh: l == 22 && b[0] == 0 && b[1] == 0x14,
        v0_wsh: l == 34 && b[0] == 0 && b[1] == 0x20,
        v1_tr: l == 34 && b[0] == 0x51 && b[1] == 0x20,
        v1plus: wit(0x51, 0x60),
    }
}

fn lib_preds(s: &Script) -> Preds {
    Preds {
        p2pkh: s.is_p2pkh(),
        p2sh: s.is_p2sh(),
        witprog: s.is_witness_program(),
        v0_wpkh: s.is_v0_p2wpkh(),
        v0_wsh: s.is_v0_p2wsh(),
        v1_tr: s.is_v1_p2tr(),
        v1plus: s.is_v1plus_p2witprog(),
    }
}

pub fn check_template(r: &Report, bytes: &[u8], blinder: Option<elements::secp256k1_zkp::PublicKey>) {
    r.trans(1);
    crate::engine::crash::crumb("script-template", bytes);
    let s = Script::from(bytes.to_vec());
    let rp = ref_preds(bytes);
    let case = || json!({"script": crate::engine::hex(bytes)});
    let res = guard(|| (lib_preds(&s), Address::from_script(&s, blinder, &AddressParams::ELEMENTS)));
    let (lp, addr) = match res {
        Ok(x) => x,
        Err(p) => return r.violation(format!("template/panic@{}", crate::engine::panic_site(&p)), case(), p),
    };
    if lp != rp {
        let which = if lp.p2pkh != rp.p2pkh {
            "is_p2pkh"
        } else if lp.p2sh != rp.p2sh {
            "is_p2sh"
        } else if lp.witprog != rp.witprog {
            "is_witness_program"
        } else if lp.v0_wpkh != rp.v0_wpkh {
            "is_v0_p2wpkh"
        } else if lp.v0_wsh != rp.v0_wsh {
            "is_v0_p2wsh"
        } else if lp.v1_tr != rp.v1_tr {
            "is_v1_p2tr"
        } else {
            "is_v1plus_p2witprog"
        };
        r.violation(format!("template/predicate-differs/{}", which), case(), format!("lib={:?} byte-form={:?}", lp, rp));
    }
    let has_address_template = rp.p2pkh || rp.p2sh || rp.v0_wpkh || rp.v0_wsh || rp.v1plus;
    let v0_other = rp.witprog && bytes[0] == 0 && !rp.v0_wpkh && !rp.v0_wsh;
    match addr {
        None => {
            r.acc(false);
            if has_address_template {
                r.violation("template/no-address-for-template", case(), "Address::from_script returned None for a standard template");
            }
        }
        Some(a) => {
            r.acc(true);
            if !has_address_template && !v0_other {
                r.violation("template/address-for-non-template", case(), format!("Address::from_script returned {} for a script that is no standard template", a));
            }
            let spk = guard(|| a.script_pubkey());
            match spk {
                Ok(sp) if sp == s => {}
                Ok(sp) => r.violation("template/address-script-differs", case(), format!("address {} has script_pubkey {}", a, crate::engine::hex(sp.as_bytes()))),
                Err(p) => r.violation("template/script_pubkey-panic", case(), p),
            }
            let txt = a.to_string();
            match guard(|| Address::from_str(&txt)) {
                Ok(Ok(b)) if b == a => {}
                Ok(Ok(_)) => r.violation("template/address-text-roundtrip-differs", case(), format!("{} parses to a different address", txt)),
                Ok(Err(e)) => r.violation("template/address-text-does-not-parse", case(), format!("{} -> {:?}", txt, e)),
                Err(p) => r.violation("template/address-parse-panic", case(), p),
            }
            r.nontrivial(fnv(bytes));
        }
    }
}

pub fn run(r: &Report) {
    let thorough = r.tier.thorough();
    r.set_rule(
        "(i) all builder programs of length <= 2 over the full alphabet (push_opcode for 0x00 and 0x4f..0xff, push_int / push_scriptint \
         over 45 boundary values, push_slice with 12 boundary lengths x 2 contents + 6 one-byte values + 11 two..four-byte contents that read as small / negative-zero script numbers, push_verify) and all of length 3 \
         (4 in thorough) over a 31-operation sub-alphabet, against a reference builder model (bytes, instruction list, minimal-push); the template constructors (new_p2pkh, new_p2sh, new_v0_wpkh, new_v0_wsh, new_witness_program for every version x length, to_p2sh, to_v0_p2wsh) against the byte forms; \
         (ii) read_scriptint on all byte strings of length <= 2 (<= 3 thorough) and an 8-value-per-byte menu at lengths 4..5, push_int \
         round trip for every n in [-70000, 70000] and the boundary set; (iii) every script [b0][b1][payload] for all 65536 (b0,b1) x \
         every total length 0..45, and every single-byte variation of the p2pkh / p2sh frames at lengths +-2, with and without blinder: \
         predicates == byte-form reference, from_script Some <=> template, script_pubkey and text round trip. \
         non-trivial = distinct builder outputs + distinct scripts that map to an address",
    );
    // ---- (i)
    let full = alphabet(true);
    let small = alphabet(false);
    let mut progs: Vec<Vec<BOp>> = vec![vec![]];
    for a in &full {
        progs.push(vec![a.clone()]);
    }
    for a in &full {
        for b in &full {
            progs.push(vec![a.clone(), b.clone()]);
        }
    }
    for a in &small {
        for b in &small {
            for c in &small {
                progs.push(vec![a.clone(), b.clone(), c.clone()]);
                if thorough {
                    for d in &small {
                        progs.push(vec![a.clone(), b.clone(), c.clone(), d.clone()]);
                    }
                }
            }
        }
    }
    r.set_extra("builder_programs", json!(progs.len()));
    r.set_extra("builder_alphabet", json!(full.len()));
    progs.par_iter().for_each(|p| check_program(r, p));
    r.sample(json!({"builder_program": progs[progs.len() / 2], "reference_bytes": hex_short(&ref_build(&progs[progs.len() / 2]).0)}));

    // ---- (i-b) the template CONSTRUCTORS: their bytes are the template's byte form, the matching predicate holds, an address is
    // derived, and the address's output script is the constructed script
    {
        use elements::hashes::Hash as _;
        let mut n_ctor = 0u64;
        let mut check = |name: &str, sc: elements::Script, expect: Vec<u8>, pred: bool| {
            n_ctor += 1;
            r.trans(1);
            let case = json!({"constructor": name, "script": crate::engine::hex(sc.as_bytes())});
            if sc.as_bytes() != &expect[..] {
                r.violation(format!("constructor/{}/bytes-differ-from-template", name), case.clone(), format!("built {} expected {}", crate::engine::hex(sc.as_bytes()), crate::engine::hex(&expect)));
            }
            if !pred {
                r.violation(format!("constructor/{}/predicate-false", name), case.clone(), "the constructed script is not recognised as its own template");
            }
            match elements::Address::from_script(&sc, None, &elements::AddressParams::ELEMENTS) {
                Some(a) if a.script_pubkey() == sc => {}
                Some(_) => r.violation(format!("constructor/{}/address-script-differs", name), case.clone(), "Address::from_script(..).script_pubkey() != script"),
                None => r.violation(format!("constructor/{}/no-address", name), case.clone(), "no address is derived from a standard template"),
            }
        };
        for k in 0..8usize {
            let h20: [u8; 20] = crate::props::c06::hash20(k);
            let h32: [u8; 32] = crate::gen::pat32(k);
            let sc = elements::Script::new_p2pkh(&<elements::PubkeyHash as elements::bitcoin::hashes::Hash>::from_byte_array(h20));
            let mut e = vec![0x76, 0xa9, 0x14];
            e.extend_from_slice(&h20);
            e.extend_from_slice(&[0x88, 0xac]);
            let p = sc.is_p2pkh();
            check("new_p2pkh", sc, e, p);
            let sc = elements::Script::new_p2sh(&elements::ScriptHash::from_byte_array(h20));
            let mut e = vec![0xa9, 0x14];
            e.extend_from_slice(&h20);
            e.push(0x87);
            let p = sc.is_p2sh();
            check("new_p2sh", sc, e, p);
            let sc = elements::Script::new_v0_wpkh(&<elements::WPubkeyHash as elements::bitcoin::hashes::Hash>::from_byte_array(h20));
            let mut e = vec![0x00, 0x14];
            e.extend_from_slice(&h20);
            let p = sc.is_v0_p2wpkh() && sc.is_witness_program();
            check("new_v0_wpkh", sc, e, p);
            let sc = elements::Script::new_v0_wsh(&elements::WScriptHash::from_byte_array(h32));
            let mut e = vec![0x00, 0x20];
            e.extend_from_slice(&h32);
            let p = sc.is_v0_p2wsh() && sc.is_witness_program();
            check("new_v0_wsh", sc, e, p);
            // conversions of an arbitrary script: hash160 / sha256 of its bytes (own SHA-256 for the latter)
            let inner = elements::Script::from(crate::gen::blob(k * 37 % 90, k as u8));
            let sc = inner.to_v0_p2wsh();
            let mut e = vec![0x00, 0x20];
            e.extend_from_slice(&crate::oracle::sha256::sha256(inner.as_bytes()));
            let p = sc.is_v0_p2wsh();
            check("to_v0_p2wsh", sc, e, p);
            let sc = inner.to_p2sh();
            let mut e = vec![0xa9, 0x14];
            e.extend_from_slice(&elements::hashes::hash160::Hash::hash(inner.as_bytes()).to_byte_array());
            e.push(0x87);
            let p = sc.is_p2sh();
            check("to_p2sh", sc, e, p);
        }
        for ver in 0..=16u8 {
            let lens: Vec<usize> = if ver == 0 { vec![20, 32] } else { (2..=40).collect() };
            for l in lens {
                let prog = crate::gen::blob(l, ver);
                let sc = elements::Script::new_witness_program(bech32::Fe32::try_from(ver).unwrap(), &prog);
                let mut e = vec![if ver == 0 { 0 } else { 0x50 + ver }, l as u8];
                e.extend_from_slice(&prog);
                let p = sc.is_witness_program() && (ver == 0 || sc.is_v1plus_p2witprog()) && (ver != 1 || l != 32 || sc.is_v1_p2tr());
                check("new_witness_program", sc, e, p);
            }
        }
        r.set_extra("template_constructor_calls", json!(n_ctor));
    }

    // ---- (ii)
    let maxlen = if thorough { 3 } else { 2 };
    let mut n_ints = 0u64;
    let mut f = |b: &[u8]| {
        n_ints += 1;
        let exp = ref_read_scriptint(b);
        match guard(|| script::read_scriptint(b)) {
            Ok(got) => {
                if got.clone().ok() != exp {
                    r.violation(format!("read_scriptint/differs/len{}", b.len()), json!({"bytes": crate::engine::hex(b)}), format!("lib={:?} ref={:?}", got, exp));
                }
            }
            Err(p) => r.violation("read_scriptint/panic", json!({"bytes": crate::engine::hex(b)}), p),
        }
    };
    crate::engine::dev::all_strings(maxlen, &mut f);
    let menu = [0x00u8, 0x01, 0x7f, 0x80, 0x81, 0xfe, 0xff, 0x10];
    for len in (maxlen + 1)..=5 {
        crate::engine::product(&vec![8usize; len], |d| {
            let b: Vec<u8> = d.iter().map(|&i| menu[i]).collect();
            f(&b);
        });
    }
    r.trans(n_ints);
    r.eval(n_ints);
    r.set_extra("read_scriptint_strings", json!(n_ints));
    // push_int -> instructions -> read back
    let ints: Vec<i64> = (-70_000i64..=70_000).chain(INTS.iter().cloned().filter(|n| n.abs() <= 0x7fff_ffff)).collect();
    r.set_extra("int_roundtrips", json!(ints.len()));
    ints.par_iter().for_each(|&n| {
        r.eval(1);
        r.trans(1);
        let res = guard(|| {
            let s = Builder::new().push_int(n).into_script();
            let v: Vec<_> = s.instructions_minimal().collect();
            if v.len() != 1 {
                return Err(format!("{} instructions", v.len()));
            }
            match &v[0] {
                Ok(Instruction::PushBytes(d)) => script::read_scriptint(d).map_err(|e| format!("{:?}", e)),
                Ok(Instruction::Op(o)) => {
                    let b = o.into_u8();
                    if b == 0x4f {
                        Ok(-1)
                    } else if (0x51..=0x60).contains(&b) {
                        Ok((b - 0x50) as i64)
                    } else {
                        Err(format!("opcode {:02x}", b))
                    }
                }
                Err(e) => Err(format!("{:?}", e)),
            }
        });
        match res {
            Ok(Ok(m)) if m == n => {}
            Ok(other) => r.violation("int-roundtrip/differs", json!({"n": n}), format!("push_int({}) read back as {:?}", n, other)),
            Err(p) => r.violation("int-roundtrip/panic", json!({"n": n}), p),
        }
    });

    // ---- (iii)
    let blinder = crate::props::c06::blinders()[1];
    let lens: Vec<usize> = (0..=45).collect();
    lens.par_iter().for_each(|&l| {
        r.state(1);
        if l < 2 {
            // all scripts of length 0 and 1
            check_template(r, &[], None);
            if l == 1 {
                for b in 0..=255u8 {
                    check_template(r, &[b], None);
                }
            }
            return;
        }
        let mut buf = gen::blob(l, l as u8);
        for b0 in 0..=255u8 {
            buf[0] = b0;
            for b1 in 0..=255u8 {
                buf[1] = b1;
                check_template(r, &buf, if (b0 ^ b1) & 1 == 0 { None } else { blinder });
            }
        }
    });
    // p2pkh / p2sh frames: every single-byte variation of each frame byte, lengths +-2
    for hl in 18..=22usize {
        let mut pkh = vec![0x76, 0xa9, 0x14];
        pkh.extend_from_slice(&gen::blob(hl, 1));
        pkh.extend_from_slice(&[0x88, 0xac]);
        let mut sh = vec![0xa9, 0x14];
        sh.extend_from_slice(&gen::blob(hl, 2));
        sh.push(0x87);
        for (tmpl, frame) in [(pkh.clone(), vec![0usize, 1, 2, pkh.len() - 2, pkh.len() - 1]), (sh.clone(), vec![0usize, 1, sh.len() - 1])] {
            check_template(r, &tmpl, None);
            check_template(r, &tmpl, blinder);
            for &pos in &frame {
                for v in 0..=255u8 {
                    let mut t = tmpl.clone();
                    t[pos] = v;
                    check_template(r, &t, None);
                }
            }
            // with the push-length byte set to the actual payload length
            let mut t = tmpl.clone();
            let lp = if t[0] == 0x76 { 2 } else { 1 };
            t[lp] = hl as u8;
            check_template(r, &t, None);
        }
    }
    r.sample(json!({"template_example": "5120<32 bytes> -> is_v1_p2tr, is_witness_program, is_v1plus_p2witprog; Address::from_script Some; script_pubkey == script"}));
    r.assume("push_opcode is only driven with non-push opcodes (0x00, 0x4f..0xff): adding a raw push opcode through push_opcode is outside 'data pushes and opcodes that were added'");
    r.assume("one-byte pushes of 1..16 / 0x81 via push_slice / push_scriptint are documented as non-minimal and exempt from the instructions_minimal comparison");
    r.assume("v0 witness programs whose length is neither 20 nor 32 have no address form; nothing is demanded of from_script for them beyond the round-trip invariants if it returns Some");
}

pub fn replay(case: &Value) -> String {
    let r = Report::new("C16", crate::engine::Tier::Quick, 0);
    if let Some(h) = case["script"].as_str() {
        let b = crate::engine::unhex(h);
        check_template(&r, &b, None);
        check_template(&r, &b, crate::props::c06::blinders()[1]);
    } else if let Ok(p) = serde_json::from_value::<Vec<BOp>>(case.clone()) {
        check_program(&r, &p);
    } else if let Some(h) = case["bytes"].as_str() {
        let b = crate::engine::unhex(h);
        let got = guard(|| script::read_scriptint(&b));
        return format!("read_scriptint -> {:?}, reference {:?}", got, ref_read_scriptint(&b));
    }
    let v = r.take_violations();
    if v.is_empty() { "HOLDS".into() } else { format!("VIOLATES {} ({})", v[0].1.class, v[0].1.detail) }
}
