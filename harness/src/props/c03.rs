//! C03 — legacy / segwit-v0 / taproot signature hashes equal an independent implementation of the
//! Elements algorithms, for every transaction shape x input index x hash type x script/annex/leaf.
//! Also hosts the query alphabet shared with C13 (sighash cache).

use crate::engine::{fnv, guard, hex, Report};
use crate::gen::{self, pat32};
use crate::oracle::model::*;
use crate::oracle::sighash as os;
use elements::hashes::Hash;
use elements::sighash::{Annex, Prevouts, SighashCache};
use elements::taproot::TapLeafHash;
use elements::{BlockHash, EcdsaSighashType, SchnorrSighashType, Script, Transaction, TxOut};
use rayon::prelude::*;
use serde::{Deserialize, Serialize};
use serde_json::{json, Value};
use std::ops::Deref;

pub const ECDSA_TYPES: [u32; 6] = [0x01, 0x02, 0x03, 0x81, 0x82, 0x83];
pub const SCHNORR_TYPES: [u8; 7] = [0x00, 0x01, 0x02, 0x03, 0x81, 0x82, 0x83];

#[derive(Clone, Copy, Debug, PartialEq, Eq, Hash, Serialize, Deserialize)]
pub enum PrevMode {
    All,
    /// Prevouts::One(i, spent[i]) for the queried input i
    OneSelf,
    /// Prevouts::One(j, spent[j]) with j = (i+1) % max(n,2): wrong index
    OneOther,
    AllShort,
    AllLong,
}

#[derive(Clone, Debug, PartialEq, Eq, Hash, Serialize, Deserialize)]
pub enum Query {
    Legacy { idx: usize, script: usize, ty: u32 },
    Segwit { idx: usize, script: usize, value: usize, ty: u32 },
    /// annex: 0 none, 1 = [0x50], 2 = [0x50, 0xaa, 0xbb]; leaf: 0 = key path, k>0 = script path menu entry
    Taproot { idx: usize, ty: u8, annex: usize, leaf: usize, prev: PrevMode },
}

#[derive(Clone, Debug, PartialEq, Eq, Hash)]
pub enum Answer {
    Digest([u8; 32]),
    Err(String),
    Panic(String),
}

impl Answer {
    /// Agreement with the reference: digests must be equal; the property fixes THAT an ill-formed query is an error,
    /// not which error variant is returned, so any two errors agree. A panic never agrees.
    pub fn agrees(&self, reference: &Answer) -> bool {
        match (self, reference) {
            (Answer::Err(_), Answer::Err(_)) => true,
            (Answer::Panic(_), _) | (_, Answer::Panic(_)) => false,
            _ => self == reference,
        }
    }
}

pub fn script_menu(i: usize) -> Vec<u8> {
    match i % 3 {
        0 => vec![],
        1 => {
            let mut v = vec![0x76, 0xa9, 0x14];
            v.extend_from_slice(&pat32(4)[..20]);
            v.extend_from_slice(&[0x88, 0xac]);
            v
        }
        _ => gen::blob(253, 8),
    }
}

pub fn value_menu(i: usize) -> RValue {
    let f = gen::fixtures();
    match i % 2 {
        0 => RValue::Explicit(100_000_000),
        _ => RValue::Conf(f.comms[0]),
    }
}

pub fn annex_menu(i: usize) -> Option<Vec<u8>> {
    match i {
        0 => None,
        1 => Some(vec![0x50]),
        2 => Some(vec![0x50, 0xaa, 0xbb]),
        _ => {
            let mut v = vec![0x50];
            v.extend(gen::blob(299, 4));
            Some(v)
        }
    }
}

/// (leaf script, leaf version, code separator position)
pub fn leaf_menu(i: usize) -> Option<(Vec<u8>, u8, u32)> {
    match i {
        0 => None,
        1 => Some((vec![0x51], 0xc4, 0xffff_ffff)),
        2 => Some((vec![0x51], 0xc4, 0)),
        3 => Some((vec![0x51], 0xc4, 7)),
        4 => Some((vec![0x51], 0xc0, 0xffff_ffff)),
        _ => Some((gen::blob(300, 1), 0xc4, 0xffff_ffff)),
    }
}

pub fn genesis() -> [u8; 32] {
    pat32(1)
}

fn ecdsa(ty: u32) -> EcdsaSighashType {
    EcdsaSighashType::from_u32(ty)
}

/// Ask the library. The cache is supplied by the caller (fresh for C03, shared for C13).
pub fn ask<R: Deref<Target = Transaction>>(cache: &mut SighashCache<R>, q: &Query, spent: &[TxOut]) -> Answer {
    let r = guard(|| -> Result<[u8; 32], String> {
        match q {
            Query::Legacy { idx, script, ty } => {
                Ok(cache.legacy_sighash(*idx, &Script::from(script_menu(*script)), ecdsa(*ty)).to_byte_array())
            }
            Query::Segwit { idx, script, value, ty } => Ok(cache
                .segwitv0_sighash(*idx, &Script::from(script_menu(*script)), to_value(&value_menu(*value)), ecdsa(*ty))
                .to_byte_array()),
            Query::Taproot { idx, ty, annex, leaf, prev } => {
                let ab = annex_menu(*annex);
                let ann = ab.as_ref().map(|a| Annex::new(a).expect("menu annex"));
                let lf = leaf_menu(*leaf).map(|(s, v, pos)| {
                    (TapLeafHash::from_script(&Script::from(s), elements::taproot::LeafVersion::from_u8(v).unwrap()), pos)
                });
                let sty = SchnorrSighashType::from_u8(*ty).expect("menu type");
                let g = BlockHash::from_byte_array(genesis());
                let res = match prev {
                    PrevMode::All => cache.taproot_sighash(*idx, &Prevouts::All(spent), ann, lf, sty, g),
                    PrevMode::OneSelf => match spent.get(*idx) {
                        Some(o) => cache.taproot_sighash(*idx, &Prevouts::One(*idx, o), ann, lf, sty, g),
                        None => return Err("no-such-spent-output".into()),
                    },
                    PrevMode::OneOther => {
                        let j = (*idx + 1) % spent.len().max(2);
                        let o = spent.get(j).unwrap_or(&spent[0]);
                        cache.taproot_sighash(*idx, &Prevouts::One(j, o), ann, lf, sty, g)
                    }
                    PrevMode::AllShort => cache.taproot_sighash(*idx, &Prevouts::All(&spent[..spent.len() - 1]), ann, lf, sty, g),
                    PrevMode::AllLong => {
                        let mut v = spent.to_vec();
                        v.push(spent[0].clone());
                        cache.taproot_sighash(*idx, &Prevouts::All(&v), ann, lf, sty, g)
                    }
                };
                res.map(|h| h.to_byte_array()).map_err(|e| err_kind(&e))
            }
        }
    });
    match r {
        Ok(Ok(d)) => Answer::Digest(d),
        Ok(Err(e)) => Answer::Err(e),
        Err(p) => Answer::Panic(p),
    }
}

fn err_kind(e: &elements::sighash::Error) -> String {
    use elements::sighash::Error as E;
    match e {
        E::Encode(_) => "Encode",
        E::IndexOutOfInputsBounds { .. } => "IndexOutOfInputsBounds",
        E::SingleWithoutCorrespondingOutput { .. } => "SingleWithoutCorrespondingOutput",
        E::PrevoutsSize => "PrevoutsSize",
        E::PrevoutIndex => "PrevoutIndex",
        E::PrevoutKind => "PrevoutKind",
        E::WrongAnnex => "WrongAnnex",
        E::InvalidSighashType(_) => "InvalidSighashType",
    }
    .to_string()
}

/// The reference answer. None = the property does not fix the outcome of this query.
pub fn ref_answer(t: &RTx, spent: &[RTxOut], q: &Query) -> Option<Answer> {
    match q {
        Query::Legacy { idx, script, ty } => Some(Answer::Digest(os::legacy_digest(t, *idx, &script_menu(*script), *ty))),
        Query::Segwit { idx, script, value, ty } => Some(Answer::Digest(os::segwit_digest(t, *idx, &script_menu(*script), &value_menu(*value), *ty))),
        Query::Taproot { idx, ty, annex, leaf, prev } => {
            let acp = ty & 0x80 != 0;
            let ab = annex_menu(*annex);
            let lh = leaf_menu(*leaf).map(|(s, v, pos)| (crate::props::c15::leaf_hash(&s, v), pos));
            let lref = lh.as_ref().map(|(h, p)| (h, *p));
            match prev {
                PrevMode::AllShort | PrevMode::AllLong => Some(Answer::Err("PrevoutsSize".into())),
                PrevMode::OneOther => {
                    if acp {
                        Some(Answer::Err("PrevoutIndex".into()))
                    } else {
                        // needs all prevouts: an error; which of the two kinds is not fixed by the property
                        None
                    }
                }
                PrevMode::OneSelf if !acp => Some(Answer::Err("PrevoutKind".into())),
                PrevMode::All | PrevMode::OneSelf => match os::taproot_preimage(t, *idx, spent, ab.as_deref(), lref, *ty, &genesis()) {
                    Ok(m) => Some(Answer::Digest(os::taproot_digest(&m))),
                    Err(os::TapErr::SingleWithoutCorrespondingOutput) => Some(Answer::Err("SingleWithoutCorrespondingOutput".into())),
                    Err(_) => None,
                },
            }
        }
    }
}

// ------------------------------------------------------------------------------------------------
// transaction shapes for the sighash properties

pub fn sig_input(kind: usize, i: usize) -> RTxIn {
    let f = gen::fixtures();
    let base = |k: gen::InKind| gen::mk_txin(k, i as u32 + (kind as u32 % 2), [0usize, 1, 25][i % 3], [0xffff_ffffu32, 0, 0xffff_fffe][(i + kind) % 3], &(RValue::Null, RValue::Null), i + kind);
    match kind % 5 {
        0 => base(gen::InKind::Plain),
        1 => {
            let mut x = base(gen::InKind::Pegin);
            x.wit.pegin_wit = vec![vec![1, 2, 3], vec![]];
            x
        }
        2 => gen::mk_txin(gen::InKind::Issuance, i as u32, 0, 0xffff_ffff, &(RValue::Explicit(1000), RValue::Explicit(2)), i),
        3 => {
            let mut x = gen::mk_txin(gen::InKind::Issuance, i as u32 + 1, 1, 5, &(RValue::Conf(f.comms[0]), RValue::Conf(f.comms[3])), i + 2);
            x.wit.amount_rp = f.rps[0].clone();
            x.wit.keys_rp = f.rps[1].clone();
            x
        }
        _ => gen::mk_txin(gen::InKind::Reissuance, i as u32, 0, 0xffff_fffd, &(RValue::Explicit(77), RValue::Null), i + 1),
    }
}

pub fn sig_output(kind: usize, j: usize) -> RTxOut {
    let f = gen::fixtures();
    let sc = gen::scripts();
    match kind % 4 {
        0 => RTxOut { asset: RAsset::Explicit(pat32(0)), value: RValue::Explicit(5000 + j as u64), nonce: RNonce::Null, script: sc[1].clone(), surj: vec![], rp: vec![] },
        1 => RTxOut { asset: RAsset::Conf(f.gens[j % 4]), value: RValue::Conf(f.comms[j % 4]), nonce: RNonce::Conf(f.pks[j % 4]), script: sc[1].clone(), surj: f.sps[j % 2].clone(), rp: f.rps[j % 2].clone() },
        2 => RTxOut { asset: RAsset::Conf(f.gens[(j + 1) % 4]), value: RValue::Conf(f.comms[(j + 2) % 4]), nonce: RNonce::Explicit(pat32(5)), script: sc[3].clone(), surj: vec![], rp: f.rps[0].clone() },
        _ => RTxOut { asset: RAsset::Explicit(pat32(2)), value: RValue::Explicit(0), nonce: RNonce::Null, script: vec![0x6a, 0x01, j as u8], surj: vec![], rp: vec![] },
    }
}

pub fn spent_output(kind: usize, i: usize) -> RTxOut {
    let f = gen::fixtures();
    let mut p2tr = vec![0x51, 0x20];
    p2tr.extend_from_slice(&pat32(i));
    match kind % 3 {
        0 => RTxOut { asset: RAsset::Explicit(pat32(0)), value: RValue::Explicit(10_000 + i as u64), nonce: RNonce::Null, script: p2tr, surj: vec![], rp: vec![] },
        1 => RTxOut { asset: RAsset::Conf(f.gens[i % 4]), value: RValue::Conf(f.comms[(i + 1) % 4]), nonce: RNonce::Conf(f.pks[0]), script: p2tr, surj: vec![], rp: vec![] },
        _ => RTxOut { asset: RAsset::Explicit(pat32(1)), value: RValue::Explicit(1), nonce: RNonce::Null, script: vec![], surj: vec![], rp: vec![] },
    }
}

#[derive(Clone)]
pub struct SigCase {
    pub tx: RTx,
    pub spent: Vec<RTxOut>,
}

pub fn sig_cases(thorough: bool) -> Vec<SigCase> {
    let mut out = Vec::new();
    for n_in in 1..=3usize {
        let mut kind_vecs: Vec<Vec<usize>> = Vec::new();
        crate::engine::product(&vec![5usize; n_in], |k| {
            if n_in == 3 && !thorough && k[2] != (k[0] + k[1]) % 5 {
                return;
            }
            kind_vecs.push(k.to_vec());
        });
        for (kv_i, kinds) in kind_vecs.iter().enumerate() {
            for n_out in 0..=3usize {
                let mut out_kind_vecs: Vec<Vec<usize>> = Vec::new();
                crate::engine::product(&vec![4usize; n_out], |k| {
                    if n_in == 3 && !thorough && n_out >= 1 && !k.iter().enumerate().all(|(j, &x)| x == (k[0] + j) % 4) {
                        return;
                    }
                    out_kind_vecs.push(k.to_vec());
                });
                for (ov_i, okinds) in out_kind_vecs.iter().enumerate() {
                    let tx = RTx {
                        version: gen::VERSIONS[(kv_i + ov_i) % 3],
                        lock_time: gen::LOCKTIMES[(kv_i + n_out) % 4],
                        ins: kinds.iter().enumerate().map(|(i, &k)| sig_input(k, i)).collect(),
                        outs: okinds.iter().enumerate().map(|(j, &k)| sig_output(k, j)).collect(),
                    };
                    let spent = (0..n_in).map(|i| spent_output(i + kv_i + ov_i, i)).collect();
                    out.push(SigCase { tx, spent });
                }
            }
        }
    }
    out
}

/// the full query product for one input index
pub fn queries_for(idx: usize, full: bool) -> Vec<Query> {
    let mut q = Vec::new();
    for &ty in &ECDSA_TYPES {
        for script in 0..3 {
            q.push(Query::Legacy { idx, script, ty });
        }
        for value in 0..2 {
            q.push(Query::Segwit { idx, script: 1 + (value % 2), value, ty });
        }
    }
    for &ty in &SCHNORR_TYPES {
        for annex in 0..3 {
            let leaves: &[usize] = if full { &[0, 1, 2, 3, 4, 5] } else { &[0, 1, 3, 4] };
            for &leaf in leaves {
                q.push(Query::Taproot { idx, ty, annex, leaf, prev: PrevMode::All });
                if annex != 1 && (leaf <= 1) {
                    q.push(Query::Taproot { idx, ty, annex, leaf, prev: PrevMode::OneSelf });
                }
            }
        }
        q.push(Query::Taproot { idx, ty, annex: 3, leaf: 0, prev: PrevMode::All });
        q.push(Query::Taproot { idx, ty, annex: 3, leaf: 5, prev: PrevMode::All });
        q.push(Query::Taproot { idx, ty, annex: 0, leaf: 0, prev: PrevMode::OneOther });
        q.push(Query::Taproot { idx, ty, annex: 0, leaf: 0, prev: PrevMode::AllShort });
        q.push(Query::Taproot { idx, ty, annex: 2, leaf: 1, prev: PrevMode::AllLong });
    }
    q
}

fn qclass(q: &Query) -> String {
    match q {
        Query::Legacy { ty, .. } => format!("legacy/{:02x}", ty),
        Query::Segwit { ty, .. } => format!("segwit/{:02x}", ty),
        Query::Taproot { ty, leaf, prev, .. } => format!("taproot/{:02x}/{}/{:?}", ty, if *leaf == 0 { "key" } else { "script" }, prev),
    }
}

fn shape(t: &RTx) -> String {
    let k: Vec<&str> = t
        .ins
        .iter()
        .map(|i| match (&i.issuance, i.is_pegin) {
            (None, false) => "plain",
            (None, true) => "pegin",
            (Some(is), _) if is.nonce != [0u8; 32] => "reissue",
            (Some(is), _) if matches!(is.amount, RValue::Conf(_)) => "ciss",
            _ => "iss",
        })
        .collect();
    format!("{}|{}out", k.join("+"), t.outs.len())
}

pub fn check_query(r: &Report, c: &SigCase, lib_tx: &Transaction, lib_spent: &[TxOut], q: &Query) {
    r.trans(1);
    let exp = match ref_answer(&c.tx, &c.spent, q) {
        Some(e) => e,
        None => return,
    };
    let mut cache = SighashCache::new(lib_tx);
    let got = ask(&mut cache, q, lib_spent);
    r.trace(1);
    // the property fixes digests and the fact that an ill-formed query is an error, not WHICH error variant is returned
    if !got.agrees(&exp) {
        let idx_note = match q {
            Query::Legacy { idx, ty, .. } if ty & 0x1f == 3 && *idx >= c.tx.outs.len() => "/single-out-of-range",
            _ => "",
        };
        let detail = match (&got, &exp) {
            (Answer::Digest(g), Answer::Digest(e)) => format!("{} tx shape {}: lib digest {} reference {}{}", qclass(q), shape(&c.tx), hex(g), hex(e), preimage_diff(c, lib_tx, lib_spent, q)),
            _ => format!("{} tx shape {}: lib {:?} reference {:?}", qclass(q), shape(&c.tx), got, exp),
        };
        r.violation(
            format!("{}{}", qclass(q), idx_note),
            json!({"tx": hex(&c.tx.enc_full()), "spent": c.spent.iter().map(|s| { let mut v = Vec::new(); enc_txout(&mut v, s); hex(&v) }).collect::<Vec<_>>(), "query": q}),
            detail,
        );
    }
    match &got {
        Answer::Digest(_) => r.outcome(&format!("{}:digest", qclass(q))),
        Answer::Err(e) => r.outcome(&format!("{}:{}", qclass(q), e)),
        Answer::Panic(_) => r.outcome("panic"),
    }
}

/// byte offset of the first difference between the library's raw pre-image and the reference's
fn preimage_diff(c: &SigCase, lib_tx: &Transaction, lib_spent: &[TxOut], q: &Query) -> String {
    let lib: Option<Vec<u8>> = guard(|| {
        let mut cache = SighashCache::new(lib_tx);
        let mut w = Vec::new();
        match q {
            Query::Legacy { idx, script, ty } => cache.encode_legacy_signing_data_to(&mut w, *idx, &Script::from(script_menu(*script)), ecdsa(*ty)).ok()?,
            Query::Segwit { idx, script, value, ty } => cache
                .encode_segwitv0_signing_data_to(&mut w, *idx, &Script::from(script_menu(*script)), to_value(&value_menu(*value)), ecdsa(*ty))
                .ok()?,
            Query::Taproot { idx, ty, annex, leaf, .. } => {
                let ab = annex_menu(*annex);
                let ann = ab.as_ref().map(|a| Annex::new(a).unwrap());
                let lf = leaf_menu(*leaf).map(|(s, v, pos)| (TapLeafHash::from_script(&Script::from(s), elements::taproot::LeafVersion::from_u8(v).unwrap()), pos));
                cache
                    .taproot_encode_signing_data_to(&mut w, *idx, &Prevouts::All(lib_spent), ann, lf, SchnorrSighashType::from_u8(*ty).unwrap(), BlockHash::from_byte_array(genesis()))
                    .ok()?
            }
        }
        Some(w)
    })
    .ok()
    .flatten();
    let rf: Option<Vec<u8>> = match q {
        Query::Legacy { idx, script, ty } => match os::legacy(&c.tx, *idx, &script_menu(*script), *ty) {
            os::Legacy::Preimage(m) => Some(m),
            os::Legacy::One => None,
        },
        Query::Segwit { idx, script, value, ty } => Some(os::segwit_preimage(&c.tx, *idx, &script_menu(*script), &value_menu(*value), *ty)),
        Query::Taproot { idx, ty, annex, leaf, .. } => {
            let ab = annex_menu(*annex);
            let lh = leaf_menu(*leaf).map(|(s, v, pos)| (crate::props::c15::leaf_hash(&s, v), pos));
            os::taproot_preimage(&c.tx, *idx, &c.spent, ab.as_deref(), lh.as_ref().map(|(h, p)| (h, *p)), *ty, &genesis()).ok()
        }
    };
    match (lib, rf) {
        (Some(a), Some(b)) => {
            let off = a.iter().zip(b.iter()).position(|(x, y)| x != y).unwrap_or(a.len().min(b.len()));
            format!("; pre-images differ at byte {} (lib {} bytes, reference {} bytes)", off, a.len(), b.len())
        }
        (Some(a), None) => format!("; reference digest is the SIGHASH_SINGLE constant itself, library hashes a {}-byte pre-image", a.len()),
        _ => String::new(),
    }
}

pub fn run(r: &Report) {
    match os::selftest() {
        Ok(n) => r.set_extra("oracle_selftest_vectors", json!(n)),
        Err(e) => return r.machinery(e),
    }
    let thorough = r.tier.thorough();
    r.set_rule(
        "transactions: 1..3 inputs over {plain, pegin(+witness), new issuance explicit, issuance with confidential amounts + both issuance \
         rangeproofs, reissuance}^n (n=3: covering subset in quick, full product in thorough) x 0..3 outputs over {explicit, confidential \
         with both proofs, confidential with one proof, null-data}^m; spent outputs explicit / confidential / empty-script; every input \
         index; legacy: 6 types x 3 script codes (0/25/253 bytes); segwit: 6 types x explicit/confidential value; taproot: 7 types x \
         {key path, 3-5 script-path variants (code separator ffffffff/0/7, leaf version c4/c0, 300-byte leaf)} x annex {none, 50, 50aabb} x \
         Prevouts All / One(self) / One(other) / too short / too long; every answer (digest or error kind) compared with the independent \
         implementation; then every single-field modification (as C02, plus spent-output fields) re-checked on a query subset. \
         non-trivial = distinct (transaction, query) digests compared",
    );
    let cases = sig_cases(thorough);
    r.set_extra("transactions", json!(cases.len()));
    cases.par_iter().for_each(|c| {
        r.eval(1);
        r.state(1);
        let lib_tx = to_tx(&c.tx);
        let lib_spent: Vec<TxOut> = c.spent.iter().map(to_txout).collect();
        let enc = c.tx.enc_full();
        for idx in 0..c.tx.ins.len() {
            for q in queries_for(idx, thorough) {
                check_query(r, c, &lib_tx, &lib_spent, &q);
            }
        }
        r.nontrivial(fnv(&enc));
    });
    // sensitivity: every single-field modification of a subset of transactions, through a query subset
    let subset: Vec<&SigCase> = cases.iter().step_by(if thorough { 7 } else { 23 }).collect();
    r.set_extra("sensitivity_base_transactions", json!(subset.len()));
    subset.par_iter().for_each(|c| {
        let mods = crate::props::c02::tx_mods(&c.tx);
        for (name, f) in mods {
            let mut t2 = c.tx.clone();
            f(&mut t2);
            if t2.ins.len() != c.tx.ins.len() {
                continue;
            }
            let c2 = SigCase { tx: t2, spent: c.spent.clone() };
            let lib_tx = to_tx(&c2.tx);
            let lib_spent: Vec<TxOut> = c2.spent.iter().map(to_txout).collect();
            for idx in 0..c2.tx.ins.len() {
                for q in [
                    Query::Legacy { idx, script: 1, ty: 0x01 },
                    Query::Legacy { idx, script: 1, ty: 0x83 },
                    Query::Segwit { idx, script: 1, value: 0, ty: 0x01 },
                    Query::Segwit { idx, script: 1, value: 1, ty: 0x82 },
                    Query::Taproot { idx, ty: 0x00, annex: 0, leaf: 0, prev: PrevMode::All },
                    Query::Taproot { idx, ty: 0x83, annex: 2, leaf: 3, prev: PrevMode::All },
                    Query::Taproot { idx, ty: 0x02, annex: 0, leaf: 1, prev: PrevMode::All },
                ] {
                    // does the modification change the reference digest? (committed vs not committed field)
                    let before = ref_answer(&c.tx, &c.spent, &q);
                    let after = ref_answer(&c2.tx, &c2.spent, &q);
                    let field = name.split('.').skip(1).collect::<Vec<_>>().join(".");
                    r.outcome(&format!("{}:{}:{}", qclass(&q), field, if before == after { "not-committed" } else { "committed" }));
                    check_query(r, &c2, &lib_tx, &lib_spent, &q);
                }
            }
        }
        // spent-output modifications (taproot only)
        for i in 0..c.spent.len() {
            for m in 0..3 {
                let mut sp = c.spent.clone();
                match m {
                    0 => sp[i].script.push(0x51),
                    1 => sp[i].value = RValue::Explicit(424242),
                    _ => sp[i].asset = RAsset::Explicit(pat32(6)),
                }
                let c2 = SigCase { tx: c.tx.clone(), spent: sp };
                let lib_tx = to_tx(&c2.tx);
                let lib_spent: Vec<TxOut> = c2.spent.iter().map(to_txout).collect();
                for idx in 0..c2.tx.ins.len() {
                    for ty in [0x01u8, 0x81] {
                        check_query(r, &c2, &lib_tx, &lib_spent, &Query::Taproot { idx, ty, annex: 0, leaf: 0, prev: PrevMode::All });
                    }
                }
            }
        }
    });
    // alternative entry points must give the digest of the general function's reference:
    // taproot_key_spend_signature_hash, taproot_script_spend_signature_hash with a ScriptPath (every leaf version
    // of the menu) and with a TapLeafHash
    let alt: Vec<&SigCase> = cases.iter().step_by(if thorough { 11 } else { 41 }).collect();
    alt.par_iter().for_each(|c| {
        let lib_tx = to_tx(&c.tx);
        let lib_spent: Vec<TxOut> = c.spent.iter().map(to_txout).collect();
        let g = BlockHash::from_byte_array(genesis());
        for idx in 0..c.tx.ins.len() {
            for &ty in &SCHNORR_TYPES {
                let sty = SchnorrSighashType::from_u8(ty).unwrap();
                r.trans(1);
                let exp_key = ref_answer(&c.tx, &c.spent, &Query::Taproot { idx, ty, annex: 0, leaf: 0, prev: PrevMode::All });
                let got = guard(|| SighashCache::new(&lib_tx).taproot_key_spend_signature_hash(idx, &Prevouts::All(&lib_spent), sty, g).map(|h| h.to_byte_array()).map_err(|e| err_kind(&e)));
                let got = match got { Ok(Ok(d)) => Answer::Digest(d), Ok(Err(e)) => Answer::Err(e), Err(p) => Answer::Panic(p) };
                if !exp_key.as_ref().map_or(true, |e| got.agrees(e)) {
                    r.violation(format!("entry-point/taproot_key_spend_signature_hash/{:02x}", ty), json!({"tx": hex(&c.tx.enc_full()), "idx": idx, "ty": ty}), format!("{:?} vs reference {:?}", got, exp_key));
                }
                for (script, ver) in [(vec![0x51u8], 0xc4u8), (vec![0x51], 0xc0), (vec![0x52, 0x53], 0xc2), (gen::blob(300, 1), 0xfe), (vec![], 0x66)] {
                    r.trans(2);
                    let lh = crate::props::c15::leaf_hash(&script, ver);
                    let exp = match os::taproot_preimage(&c.tx, idx, &c.spent, None, Some((&lh, 0xffff_ffff)), ty, &genesis()) {
                        Ok(m) => Answer::Digest(os::taproot_digest(&m)),
                        Err(os::TapErr::SingleWithoutCorrespondingOutput) => Answer::Err("SingleWithoutCorrespondingOutput".into()),
                        Err(_) => continue,
                    };
                    let sc = Script::from(script.clone());
                    let lv = elements::taproot::LeafVersion::from_u8(ver).unwrap();
                    let via_path = guard(|| {
                        SighashCache::new(&lib_tx)
                            .taproot_script_spend_signature_hash(idx, &Prevouts::All(&lib_spent), elements::sighash::ScriptPath::new(&sc, 0xffff_ffff, lv), sty, g)
                            .map(|h| h.to_byte_array())
                            .map_err(|e| err_kind(&e))
                    });
                    let via_hash = guard(|| {
                        SighashCache::new(&lib_tx)
                            .taproot_script_spend_signature_hash(idx, &Prevouts::All(&lib_spent), TapLeafHash::from_script(&sc, lv), sty, g)
                            .map(|h| h.to_byte_array())
                            .map_err(|e| err_kind(&e))
                    });
                    for (name, got) in [("ScriptPath", via_path), ("TapLeafHash", via_hash)] {
                        let got = match got { Ok(Ok(d)) => Answer::Digest(d), Ok(Err(e)) => Answer::Err(e), Err(p) => Answer::Panic(p) };
                        if !got.agrees(&exp) {
                            r.violation(format!("entry-point/taproot_script_spend_signature_hash({})/leaf-version-{:02x}", name, ver), json!({"tx": hex(&c.tx.enc_full()), "idx": idx, "ty": ty, "leaf_version": ver}), format!("{:?} vs reference {:?}", got, exp));
                        }
                    }
                    let conv: TapLeafHash = elements::sighash::ScriptPath::new(&sc, 7, lv).into();
                    if conv.to_byte_array() != lh {
                        r.violation(format!("entry-point/TapLeafHash-from-ScriptPath/leaf-version-{:02x}", ver), json!({"leaf_version": ver}), "conversion differs from the reference leaf hash");
                    }
                }
            }
        }
    });
    // ScriptPath::leaf_hash against the reference leaf hash
    for k in 1..=5 {
        let (s, v, pos) = leaf_menu(k).unwrap();
        let sc = Script::from(s.clone());
        let sp = elements::sighash::ScriptPath::new(&sc, pos, elements::taproot::LeafVersion::from_u8(v).unwrap());
        if sp.leaf_hash().to_byte_array() != crate::props::c15::leaf_hash(&s, v) {
            r.violation("scriptpath-leaf-hash", json!({"leaf": hex(&s), "ver": v}), "ScriptPath::leaf_hash differs from the reference tagged hash");
        }
    }
    r.sample(json!({"query_example": queries_for(0, false)[40], "transaction_shape_example": shape(&cases[cases.len() / 2].tx)}));
    r.sample(json!({"tx": hex(&cases[7].tx.enc_full()), "queries_per_input": queries_for(0, thorough).len()}));
    r.assume("taproot: no Elements-generated vector is available offline; the oracle is written from the Elements taproot-sighash specification (field list quoted in the crate's comments) with independent encoders and hashing");
    r.assume("legacy pre-image uses the wire TxIn format (issuance flag bit inside the index) as pinned by the repository's Elements-generated issuance vector; the pegin bit is assumed to follow the same format (no vector)");
    r.assume("256-bit payloads, curve points and proofs from fixed menus");
}

pub fn replay(case: &Value) -> String {
    let r = Report::new("C03", crate::engine::Tier::Quick, 0);
    let tx = match case["tx"].as_str().and_then(|h| crate::oracle::parse::parse_tx(&crate::engine::unhex(h))) {
        Some(t) => t,
        None => return "cannot parse case tx".into(),
    };
    let mut spent = Vec::new();
    for s in case["spent"].as_array().cloned().unwrap_or_default() {
        let b = crate::engine::unhex(s.as_str().unwrap_or(""));
        let mut c = crate::oracle::parse::Cur::new(&b);
        match c.txout() {
            Some(o) => spent.push(o),
            None => return "cannot parse spent output".into(),
        }
    }
    let q: Query = match serde_json::from_value(case["query"].clone()) {
        Ok(q) => q,
        Err(e) => return format!("bad query: {}", e),
    };
    let c = SigCase { tx, spent };
    let lib_tx = to_tx(&c.tx);
    let lib_spent: Vec<TxOut> = c.spent.iter().map(to_txout).collect();
    check_query(&r, &c, &lib_tx, &lib_spent, &q);
    let v = r.take_violations();
    if v.is_empty() { "HOLDS".into() } else { format!("VIOLATES {} ({})", v[0].1.class, v[0].1.detail) }
}
