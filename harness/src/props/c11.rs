//! C11 — asset / token ids follow the issuance derivation in every representation.

use crate::engine::{fnv, guard, hex, permutations, Report};
use crate::gen::{self, pat32};
use crate::oracle::model::*;
use crate::oracle::sha256::{midstate64, sha256, sha256d};
use elements::hashes::Hash;
use elements::pset::{Input as PsetInput, PartiallySignedTransaction as Pset};
use elements::{AssetId, ContractHash, OutPoint, Txid};
use serde_json::{json, Value};

fn n32(n: u8) -> [u8; 32] {
    let mut a = [0u8; 32];
    a[0] = n;
    a
}

/// reference derivation
pub fn ref_entropy(txid: &[u8; 32], vout: u32, contract: &[u8; 32]) -> [u8; 32] {
    let mut op = Vec::with_capacity(36);
    op.extend_from_slice(txid);
    op.extend_from_slice(&vout.to_le_bytes());
    midstate64(&sha256d(&op), contract)
}
pub fn ref_asset(entropy: &[u8; 32]) -> [u8; 32] {
    midstate64(entropy, &n32(0))
}
pub fn ref_token(entropy: &[u8; 32], confidential: bool) -> [u8; 32] {
    midstate64(entropy, &n32(if confidential { 2 } else { 1 }))
}
pub fn ref_ids(i: &RTxIn) -> ([u8; 32], [u8; 32]) {
    let is = i.issuance.as_ref().expect("issuance");
    let entropy = if is.nonce == [0u8; 32] { ref_entropy(&i.txid, i.vout, &is.entropy) } else { is.entropy };
    (ref_asset(&entropy), ref_token(&entropy, matches!(is.amount, RValue::Conf(_))))
}

fn selftest() -> Result<usize, String> {
    let rev = |s: &str| {
        let mut v = crate::engine::unhex(s);
        v.reverse();
        let mut a = [0u8; 32];
        a.copy_from_slice(&v);
        a
    };
    // (txid, vout, contract, entropy, asset, token, confidential) — Elements Core vectors pinned in issuance.rs
    let z = "0000000000000000000000000000000000000000000000000000000000000000";
    let vecs = [
        ("05a047c98e82a848dee94efcf32462b065198bebf2404d201ba2e06db30b28f4", 0u32, z, "746f447f691323502cad2ef646f932613d37a83aeaa2133185b316648df4b70a", "dcd60818d863b5c026c40b2bc3ba6fdaf5018bcc8606c18adf7db4da0bcd8533", "c1adb114f4f87d33bf9ce90dd4f9ca523dd414d6cd010a7917903e2009689530", false),
        ("c76664aa4be760056dcc39b59637eeea8f3c3c3b2aeefb9f23a7b99945a2931e", 1, z, "bc67a13736341d8ad19e558433483a38cae48a44a5a8b5598ca0b01b5f9f9f41", "2ec6c1a06e895b06fffb8dc36084255f890467fb906565b0c048d4c807b4a129", "d09d205ff7c626ca98c91fed24787ff747fec62194ed1b7e6ef6cc775a1a1fdc", true),
        ("ee45365ddb62e8822182fbdd132fb156b4991e0b7411cff4aab576fd964f2edb", 0, "e06e6d4933e76afd7b9cc6a013e0855aa60bbe6d2fca1c27ec6951ff5f1a20c9", "1922da340705eef526640b49d28b08928630d1ad52db0f945f3c389267e292c9", "8eebf6109bca0331fe559f0cbd1ef846a2bbb6812f3ae3d8b0b610170cc21a4e", "eb02cbc591c9ede071625c129f0a1fab386202cb27a894a45be0d564e961d6bc", false),
        ("8903ee739b52859877fbfedc58194c2d59d0f5a4ea3c2774dc3cba3031cec757", 0, z, "b9789de8589dc1b664e4f2bda4d04af9d4d2180394a8c47b1f889acfb5e0acc4", "bdab916e8cda17781bcdb84505452e44d0ab2f080e9e5dd7765ffd5ce0c07cd9", "f144868169dfc7afc024c4d8f55607ac8dfe925e67688650a9cdc54c3cfa5b1c", true),
    ];
    for (txid, vout, contract, ent, asset, token, conf) in vecs.iter() {
        let e = ref_entropy(&rev(txid), *vout, &rev(contract));
        if e != rev(ent) || ref_asset(&e) != rev(asset) || ref_token(&e, *conf) != rev(token) {
            return Err(format!("reference issuance derivation disagrees with Elements Core vector {}", txid));
        }
    }
    Ok(vecs.len())
}

fn check_input(r: &Report, i: &RTxIn) {
    r.eval(1);
    r.state(1);
    r.trans(5);
    let exp = ref_ids(i);
    let lib_in = to_txin(i);
    let mut enc = Vec::new();
    enc_txin(&mut enc, i);
    let case = || json!({"txin": hex(&enc)});
    let kind = format!(
        "{}{}{}",
        if i.issuance.as_ref().unwrap().nonce == [0u8; 32] { "new" } else { "reissue" },
        if i.is_pegin { "+pegin" } else { "" },
        if i.vout == 0xffff_ffff { "+nullout" } else { "" }
    );
    let res = guard(|| {
        let a = lib_in.issuance_ids();
        let pin = PsetInput::from_txin(lib_in.clone());
        let b = pin.issuance_ids();
        let tx = elements::Transaction {
            version: 2,
            lock_time: elements::LockTime::ZERO,
            input: vec![lib_in.clone()],
            output: vec![to_txout(&gen::txout_rep(0))],
        };
        let pset = Pset::from_tx(tx.clone());
        let c = pset.inputs()[0].issuance_ids();
        let ex = pset.extract_tx().map_err(|e| format!("{:?}", e));
        let d = ex.as_ref().ok().map(|t| t.input[0].issuance_ids());
        // serialization hop of the PSET
        let bytes = elements::encode::serialize(&pset);
        let e = elements::encode::deserialize::<Pset>(&bytes).ok().map(|p| p.inputs()[0].issuance_ids());
        // alternative but legal PSET representations of the same issuance (another producer, an older version, a
        // hand-built input): explicit all-zero nonce / entropy fields vs absent ones, explicit amount kept next to its
        // commitment. The PSET input and the input of the transaction extracted from that very PSET must agree.
        let mut alts: Vec<(String, (AssetId, AssetId), Option<(AssetId, AssetId)>)> = Vec::new();
        let zero_nonce = lib_in.asset_issuance.asset_blinding_nonce == elements::secp256k1_zkp::ZERO_TWEAK;
        let zero_entropy = lib_in.asset_issuance.asset_entropy == [0u8; 32];
        for alt in 0..6usize {
            let mut q = pset.clone();
            {
                let i0 = &mut q.inputs_mut()[0];
                match alt {
                    0 if zero_nonce => i0.issuance_blinding_nonce = Some(elements::secp256k1_zkp::ZERO_TWEAK),
                    1 if zero_nonce => i0.issuance_blinding_nonce = None,
                    2 if zero_entropy => i0.issuance_asset_entropy = Some([0u8; 32]),
                    3 if zero_entropy => i0.issuance_asset_entropy = None,
                    4 if i0.issuance_value_comm.is_some() => i0.issuance_value_amount = Some(1000),
                    5 if i0.issuance_inflation_keys_comm.is_some() => i0.issuance_inflation_keys = Some(5),
                    _ => continue,
                }
            }
            let name = ["nonce=Some(0)", "nonce=None", "entropy=Some(0)", "entropy=None", "amount+commitment", "keys+commitment"][alt];
            let pi = q.inputs()[0].issuance_ids();
            let xi = q.extract_tx().ok().map(|t| t.input[0].issuance_ids());
            alts.push((name.to_string(), pi, xi));
        }
        // consensus-serialization hops: the input decoded from its own encoding, alone and inside the transaction, and the
        // PSET input built from that decoded input
        let mut hops: Vec<(&'static str, Option<(AssetId, AssetId)>)> = Vec::new();
        // (an issuance on the all-ones index cannot be expressed on the wire: that index carries no flag bits)
        if lib_in.previous_output.vout != 0xffff_ffff {
        hops.push(("decoded-txin", elements::encode::deserialize::<elements::TxIn>(&elements::encode::serialize(&lib_in)).ok().map(|x| x.issuance_ids())));
        let dtx = elements::encode::deserialize::<elements::Transaction>(&elements::encode::serialize(&tx)).ok();
        hops.push(("decoded-transaction-input", dtx.as_ref().map(|x| x.input[0].issuance_ids())));
        hops.push(("pset-input-from-decoded-transaction", dtx.as_ref().map(|x| PsetInput::from_txin(x.input[0].clone()).issuance_ids())));
        hops.push(("pset-from-decoded-transaction-extracted", dtx.as_ref().and_then(|x| Pset::from_tx(x.clone()).extract_tx().ok()).map(|x| x.input[0].issuance_ids())));
        }
        (a, b, c, d, e, ex.map(|t| t == tx), alts, hops)
    });
    let t = |x: (AssetId, AssetId)| (x.0.to_byte_array(), x.1.to_byte_array());
    match res {
        Err(p) => r.violation(format!("panic/{}", kind), case(), p),
        Ok((a, b, c, d, e, _same, alts, hops)) => {
            r.trace(1);
            for (name, ids) in hops {
                r.trans(1);
                match ids {
                    Some(x) if t(x) == exp => {}
                    Some(x) => r.violation(format!("{}-ids-differ/{}", name, kind), case(), format!("asset={} token={} expected asset={}", hex(&t(x).0), hex(&t(x).1), hex(&exp.0))),
                    None => r.violation(format!("{}-failed/{}", name, kind), case(), "the input's own consensus encoding does not decode"),
                }
            }
            for (name, pi, xi) in alts {
                r.trans(1);
                match xi {
                    None => r.violation(format!("alt-representation/extract-failed/{}/{}", name, kind), case(), "extract_tx failed on an alternative representation of the issuance"),
                    Some(xi) => {
                        if t(pi) != t(xi) {
                            r.violation(format!("alt-representation/pset-input-vs-extracted-ids-differ/{}/{}", name, kind), case(), format!("pset input asset={} token={}; extracted input asset={} token={}", hex(&t(pi).0), hex(&t(pi).1), hex(&t(xi).0), hex(&t(xi).1)));
                        } else if t(pi) != exp {
                            r.violation(format!("alt-representation/ids-differ-from-derivation/{}/{}", name, kind), case(), "both views agree with each other but not with the reference derivation");
                        }
                        r.outcome(&format!("alt/{}", name));
                    }
                }
            }
            if t(a) != exp {
                r.violation(format!("txin-ids-differ-from-derivation/{}", kind), case(), format!("lib=({},{}) ref=({},{})", hex(&t(a).0), hex(&t(a).1), hex(&exp.0), hex(&exp.1)));
            }
            if t(b) != exp {
                r.violation(format!("pset-input-ids-differ/{}", kind), case(), format!("pset::Input::from_txin(..).issuance_ids() asset={} expected {}", hex(&t(b).0), hex(&exp.0)));
            }
            if t(c) != exp {
                r.violation(format!("pset-from_tx-input-ids-differ/{}", kind), case(), "Pset::from_tx(..).inputs()[0].issuance_ids() differs");
            }
            match d {
                Some(d) if t(d) == exp => {}
                Some(_) => r.violation(format!("extracted-input-ids-differ/{}", kind), case(), "extract_tx().input[0].issuance_ids() differs"),
                None => r.violation(format!("extract-failed/{}", kind), case(), "extract_tx failed"),
            }
            match e {
                Some(e) if t(e) == exp => {}
                Some(_) => r.violation(format!("pset-roundtrip-input-ids-differ/{}", kind), case(), "ids differ after PSET serialize/deserialize"),
                None => r.violation(format!("pset-roundtrip-failed/{}", kind), case(), "PSET with this input does not deserialize"),
            }
            r.nontrivial(fnv(&enc));
            r.outcome(&kind);
            if r.sample_room() {
                r.sample(json!({"txin": hex(&enc), "asset_id": hex(&exp.0), "token_id": hex(&exp.1)}));
            }
        }
    }
}

// ------------------------------------------------------------------------------------------------
// JSON contracts

#[derive(Clone)]
enum J {
    S(&'static str),
    I(i64),
    O(Vec<(&'static str, J)>),
}

fn render(j: &J, ws: usize, out: &mut String) {
    let (sp, nl) = match ws {
        0 => ("", ""),
        1 => (" ", " "),
        _ => ("\t", "\n"),
    };
    match j {
        J::S(s) => {
            out.push('"');
            out.push_str(s);
            out.push('"');
        }
        J::I(n) => out.push_str(&n.to_string()),
        J::O(kv) => {
            out.push('{');
            out.push_str(nl);
            for (k, (key, v)) in kv.iter().enumerate() {
                if k > 0 {
                    out.push(',');
                    out.push_str(nl);
                }
                out.push_str(sp);
                out.push('"');
                out.push_str(key);
                out.push('"');
                out.push_str(sp);
                out.push(':');
                out.push_str(sp);
                render(v, ws, out);
            }
            out.push_str(nl);
            out.push('}');
        }
    }
}

/// reference canonical form: recursively key-sorted (byte order), compact
fn canonical(j: &J, out: &mut String) {
    match j {
        J::O(kv) => {
            let mut kv = kv.clone();
            kv.sort_by(|a, b| a.0.as_bytes().cmp(b.0.as_bytes()));
            out.push('{');
            for (k, (key, v)) in kv.iter().enumerate() {
                if k > 0 {
                    out.push(',');
                }
                out.push('"');
                out.push_str(key);
                out.push_str("\":");
                canonical(v, out);
            }
            out.push('}');
        }
        other => render(other, 0, out),
    }
}

fn check_contracts(r: &Report) {
    // objects with <= 4 top-level keys, one nested object with <= 3 keys; all key permutations at both levels
    let keys = ["version", "name", "entity", "Ticker"]; // mixed case: byte order differs from case-insensitive order
    let nested_keys = ["domain", "b", "a1"];
    let mut n = 0u64;
    for n_top in 1..=4usize {
        for n_nested in 0..=3usize {
            let nested: Vec<(&'static str, J)> = (0..n_nested)
                .map(|k| (nested_keys[k], if k % 2 == 0 { J::S("tether.to") } else { J::I(k as i64 - 2) }))
                .collect();
            let top: Vec<(&'static str, J)> = (0..n_top)
                .map(|k| {
                    (
                        keys[k],
                        match k {
                            0 => J::I(0),
                            1 => J::S("Tether USD"),
                            2 => J::O(nested.clone()),
                            _ => J::S("USDt"),
                        },
                    )
                })
                .collect();
            if n_top < 3 && n_nested > 0 {
                continue; // no nested object present
            }
            let mut canon = String::new();
            canonical(&J::O(top.clone()), &mut canon);
            let exp = sha256(canon.as_bytes());
            for pt in permutations(n_top) {
                for pn in permutations(n_nested) {
                    for ws in 0..3usize {
                        let nested_p: Vec<(&'static str, J)> = pn.iter().map(|&k| nested[k].clone()).collect();
                        let top_p: Vec<(&'static str, J)> = pt
                            .iter()
                            .map(|&k| if k == 2 { (top[k].0, J::O(nested_p.clone())) } else { top[k].clone() })
                            .collect();
                        let mut s = String::new();
                        render(&J::O(top_p), ws, &mut s);
                        if ws == 2 {
                            s.push_str(" \n");
                        }
                        r.eval(1);
                        r.trans(1);
                        n += 1;
                        match guard(|| ContractHash::from_json_contract(&s)) {
                            Err(p) => r.violation("contract/panic", json!({"json": s}), p),
                            Ok(Err(e)) => r.violation("contract/valid-json-rejected", json!({"json": s}), format!("{}", e)),
                            Ok(Ok(h)) => {
                                r.trace(1);
                                if h.to_byte_array() != exp {
                                    r.violation(
                                        format!("contract/hash-depends-on-order-or-whitespace/top{}nested{}", n_top, n_nested),
                                        json!({"json": s, "canonical": canon}),
                                        format!("hash {} != sha256(canonical) {}", hex(&h.to_byte_array()), hex(&exp)),
                                    );
                                }
                                r.nontrivial(fnv(s.as_bytes()));
                            }
                        }
                    }
                }
            }
        }
    }
    r.set_extra("json_contract_renderings", json!(n));
    // pinned Tether contract
    let correct = r#"{"entity":{"domain":"tether.to"},"issuer_pubkey":"0337cceec0beea0232ebe14cba0197a9fbd45fcf2ec946749de920e71434c2b904","name":"Tether USD","precision":8,"ticker":"USDt","version":0}"#;
    if let Ok(h) = ContractHash::from_json_contract(correct) {
        let mut e = crate::engine::unhex("3c7f0a53c2ff5b99590620d7f6604a7a3a7bfbaaa6aa61f7bfc7833ca03cde82");
        e.reverse();
        if h.to_byte_array()[..] != e[..] {
            r.violation("contract/tether-vector", json!({"json": correct}), "Tether contract hash differs from the pinned value");
        }
    }
}

pub fn run(r: &Report) {
    match selftest() {
        Ok(n) => r.set_extra("oracle_selftest_vectors", json!(n)),
        Err(e) => return r.machinery(e),
    }
    r.set_rule(
        "outpoints: 8 txid patterns x vout {0,1,2^30-1} (+ null outpoint) x contract hash / entropy 8 patterns x nonce {zero, non-zero} x \
         amount {explicit, confidential} x keys {null, explicit, confidential} x pegin flag, each in five representations (TxIn, \
         pset::Input::from_txin, Pset::from_tx input, extracted tx input, PSET after a serialization hop) + alternative legal PSET representations of the same issuance (nonce / entropy field absent vs explicit zero, explicit amount kept next to its commitment: PSET input vs the input extracted from that PSET) + the AssetId entry points; \
         JSON contracts: 1..4 top-level keys, nested object with 0..3 keys, all key permutations at both levels x 3 whitespace styles. \
         non-trivial = distinct input encodings / distinct JSON renderings",
    );
    let f = gen::fixtures();
    let amounts = [RValue::Explicit(1000), RValue::Conf(f.comms[0]), RValue::Null];
    let keys = [RValue::Null, RValue::Explicit(5), RValue::Conf(f.comms[1])];
    let mut cases = Vec::new();
    for tp in 0..8usize {
        for &vout in &[0u32, 1, (1 << 30) - 1, 0xffff_ffff] {
            for ep in 0..8usize {
                for reissue in [false, true] {
                    for a in &amounts {
                        for k in &keys {
                            for pegin in [false, true] {
                                if vout == 0xffff_ffff && (pegin || tp != 0) {
                                    continue;
                                }
                                if *a == RValue::Null && *k == RValue::Null {
                                    continue; // not an issuance
                                }
                                // thin the payload cross product: txid pattern x entropy pattern only on the diagonal +- 1
                                if !r.tier.thorough() && !(tp == ep || tp == (ep + 1) % 8 || vout == 0) {
                                    continue;
                                }
                                if vout == (1 << 30) - 1 && pegin {
                                    continue; // wire index 0xffffffff: not a decodable value (see C01)
                                }
                                cases.push(RTxIn {
                                    txid: if vout == 0xffff_ffff { [0u8; 32] } else { pat32(tp) },
                                    vout,
                                    is_pegin: pegin,
                                    script_sig: vec![],
                                    sequence: 0xffff_fffe,
                                    issuance: Some(RIssuance {
                                        nonce: if reissue { *gen::tweak(800 + ep as u64).as_ref() } else { [0u8; 32] },
                                        entropy: pat32(ep),
                                        amount: a.clone(),
                                        keys: k.clone(),
                                    }),
                                    wit: RInWit::default(),
                                });
                            }
                        }
                    }
                }
            }
        }
    }
    r.set_extra("issuance_inputs", json!(cases.len()));
    use rayon::prelude::*;
    cases.par_iter().for_each(|i| check_input(r, i));
    // the same cases on ONE thread, forwards and backwards (hidden memo state between derivations)
    for i in cases.iter().chain(cases.iter().rev()) {
        check_input(r, i);
    }
    r.set_extra("sequential_history_cases", json!(2 * cases.len()));
    // AssetId entry points against the reference
    for tp in 0..8usize {
        for &vout in &[0u32, 1, (1 << 30) - 1, 0xffff_ffff] {
            for cp in 0..8usize {
                r.eval(1);
                r.trans(5);
                let op = OutPoint::new(Txid::from_byte_array(pat32(tp)), vout);
                let ch = ContractHash::from_byte_array(pat32(cp));
                let e = ref_entropy(&pat32(tp), vout, &pat32(cp));
                let case = json!({"txid_pattern": tp, "vout": vout, "contract_pattern": cp});
                let got = guard(|| {
                    (
                        AssetId::generate_asset_entropy(op, ch).to_byte_array(),
                        AssetId::new_issuance(op, ch).to_byte_array(),
                        AssetId::new_reissuance_token(op, ch, false).to_byte_array(),
                        AssetId::new_reissuance_token(op, ch, true).to_byte_array(),
                        AssetId::from_entropy(elements::AssetEntropy::from_byte_array(e)).to_byte_array(),
                    )
                });
                match got {
                    Err(p) => r.violation("assetid-api/panic", case, p),
                    Ok((ge, ni, t1, t2, fe)) => {
                        r.trace(1);
                        if ge != e || ni != ref_asset(&e) || fe != ref_asset(&e) || t1 != ref_token(&e, false) || t2 != ref_token(&e, true) {
                            r.violation("assetid-api/differs-from-derivation", case, "AssetId entry points disagree with the reference derivation");
                        }
                    }
                }
            }
        }
    }
    check_contracts(r);
    // environment assertion: nested-key ordering relies on serde_json::Map being a BTreeMap in this build
    {
        let v: serde_json::Value = serde_json::from_str(r#"{"b":1,"a":2}"#).unwrap();
        if serde_json::to_string(&v).unwrap() != r#"{"a":2,"b":1}"# {
            r.machinery("serde_json/preserve_order is enabled in the harness dependency graph; the harness would observe behaviour the repository's own build does not have");
        }
    }
    r.assume("txids / contract hashes / entropies from an 8-pattern menu (cross product thinned to a band around the diagonal except for vout 0); SHA-256 trusted as implemented independently in the harness");
}

pub fn replay(case: &Value) -> String {
    let r = Report::new("C11", crate::engine::Tier::Quick, 0);
    if let Some(h) = case["txin"].as_str() {
        let b = crate::engine::unhex(h);
        let mut c = crate::oracle::parse::Cur::new(&b);
        match c.txin() {
            Some(i) if i.issuance.is_some() => check_input(&r, &i),
            _ => return "cannot parse case".into(),
        }
    } else if let Some(j) = case["json"].as_str() {
        return match ContractHash::from_json_contract(j) {
            Ok(h) => format!("contract hash {} (canonical form: {})", hex(&h.to_byte_array()), case["canonical"]),
            Err(e) => format!("VIOLATES rejected: {}", e),
        };
    }
    let v = r.take_violations();
    if v.is_empty() { "HOLDS".into() } else { format!("VIOLATES {} ({})", v[0].1.class, v[0].1.detail) }
}
