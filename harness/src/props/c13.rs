//! C13 — one sighash cache answers every query as a fresh cache would, in any order.
//!
//! Explicit-state search. A state is a real `SighashCache<&mut Transaction>` reached by replaying a
//! history of operations (queries and `witness_mut` edits) on a fresh copy of the transaction.
//! Canonical state = the COMPLETE concrete state of the object: a fingerprint of the cache's own
//! derived `Debug` rendering (the transaction with its witnesses and every cached hash value), plus
//! the fill mask of the three lazily filled caches read off that rendering (informational; the
//! non-vacuity test counts distinct fingerprints). No hook into the crate is needed. Because the fingerprint covers every field of the object, two histories that
//! reach the same canonical state have the same futures by construction; a cache whose *contents*
//! depend on the history (first-seen index, stale hash) splits into several states and each is
//! explored with the whole alphabet. The graph is closed under the whole operation alphabet, so the
//! result covers all finite operation sequences over that alphabet, not a depth bound. Alternative
//! histories reaching an already-known canonical state are additionally replayed with the full
//! query alphabet (this guards against state kept outside the object, e.g. in a static).

use crate::engine::{fnv, hex, Report};
use crate::oracle::model::*;
use crate::props::c03::{ask, queries_for, sig_cases, Answer, PrevMode, Query, SigCase};
use elements::sighash::SighashCache;
use elements::{Transaction, TxOut};
use rayon::prelude::*;
use serde::{Deserialize, Serialize};
use serde_json::{json, Value};
use std::collections::{HashMap, VecDeque};

#[derive(Clone, Debug, PartialEq, Eq, Hash, Serialize, Deserialize)]
pub enum Op {
    Q(Query),
    /// witness_mut(i).push(item)
    Push(usize, Vec<u8>),
    /// witness_mut(i).clear()
    Clear(usize),
    /// witness_mut(i) with i out of range must be None
    MutOutOfRange,
}

/// (fill mask, fingerprint of every field of the cache object other than the transaction as printed by
/// the cache's own derived `Debug`, script-witness contents — the only mutable part of the transaction)
type Canon = ([bool; 3], u64, Vec<Vec<Vec<u8>>>);

/// `SighashCache<T>` derives `Debug` for any `T: Deref<Target = Transaction> + Debug`. Wrapping the transaction in a
/// type whose `Debug` prints nothing makes the derived rendering of the cache consist of exactly its own fields (the
/// cached hashes and whatever else the struct holds), cheaply, without any hook into the crate.
struct Quiet<'a>(&'a mut Transaction);
impl std::ops::Deref for Quiet<'_> {
    type Target = Transaction;
    fn deref(&self) -> &Transaction {
        self.0
    }
}
impl std::ops::DerefMut for Quiet<'_> {
    fn deref_mut(&mut self) -> &mut Transaction {
        self.0
    }
}
impl std::fmt::Debug for Quiet<'_> {
    fn fmt(&self, f: &mut std::fmt::Formatter<'_>) -> std::fmt::Result {
        f.write_str("_")
    }
}

const MAX_WITNESS_DEPTH: usize = 2;
/// On the real code a transaction has <= ~120 canonical states; a cache whose contents depend on the history has more.
const MAX_STATES_PER_TX: usize = 6000;

/// Replay `hist` on a fresh transaction copy and a fresh cache; returns the answers of the query ops,
/// the canonical state reached, and the transaction as edited.
fn replay(base: &Transaction, spent: &[TxOut], hist: &[Op]) -> (Vec<Option<Answer>>, Canon, Transaction) {
    let mut tx = base.clone();
    let mut answers = Vec::with_capacity(hist.len());
    let mask;
    let full;
    {
        let mut cache = SighashCache::new(Quiet(&mut tx));
        for op in hist {
            match op {
                Op::Q(q) => answers.push(Some(ask(&mut cache, q, spent))),
                Op::Push(i, item) => {
                    if let Some(w) = cache.witness_mut(*i) {
                        w.push(item.clone());
                    }
                    answers.push(None);
                }
                Op::Clear(i) => {
                    if let Some(w) = cache.witness_mut(*i) {
                        w.clear();
                    }
                    answers.push(None);
                }
                Op::MutOutOfRange => {
                    let n = usize::MAX;
                    answers.push(Some(if cache.witness_mut(n).is_none() { Answer::Err("None".into()) } else { Answer::Err("Some".into()) }));
                }
            }
        }
        let dbg = format!("{:?}", cache);
        // informational only (evidence: which lazy caches are filled); best effort from the field names in the rendering
        mask = [dbg.contains("common_cache: Some"), dbg.contains("segwit_cache: Some"), dbg.contains("taproot_cache: Some")];
        full = fnv(dbg.as_bytes());
    }
    let wit = tx.input.iter().map(|i| i.witness.script_witness.clone()).collect();
    (answers, (mask, full, wit), tx)
}

fn fresh_answer(tx: &Transaction, spent: &[TxOut], q: &Query) -> Answer {
    let mut cache = SighashCache::new(tx);
    ask(&mut cache, q, spent)
}

fn alphabet(n_in: usize) -> (Vec<Op>, Vec<Op>) {
    let mut queries = Vec::new();
    for idx in 0..n_in {
        for q in queries_for(idx, false) {
            queries.push(Op::Q(q));
        }
    }
    let mut edits = Vec::new();
    let mut idxs = vec![0usize];
    if n_in > 1 {
        idxs.push(n_in - 1);
    }
    for &i in &idxs {
        edits.push(Op::Push(i, vec![]));
        edits.push(Op::Push(i, vec![1]));
        edits.push(Op::Clear(i));
    }
    edits.push(Op::MutOutOfRange);
    (queries, edits)
}

fn explore(r: &Report, c: &SigCase, tx_id: usize) {
    let base = to_tx(&c.tx);
    let spent: Vec<TxOut> = c.spent.iter().map(to_txout).collect();
    let (queries, edits) = alphabet(c.tx.ins.len());
    let capped = std::sync::atomic::AtomicBool::new(false);
    let mut seen: HashMap<Canon, Vec<Op>> = HashMap::new();
    let mut alternates: HashMap<Canon, Vec<Vec<Op>>> = HashMap::new();
    let mut frontier: VecDeque<Vec<Op>> = VecDeque::new();
    let (_, c0, _) = replay(&base, &spent, &[]);
    seen.insert(c0, vec![]);
    frontier.push_back(vec![]);
    r.state(1);
    let case = |hist: &[Op], op: &Op| json!({"tx": hex(&c.tx.enc_full()), "spent": c.spent.iter().map(|s| { let mut v = Vec::new(); enc_txout(&mut v, s); hex(&v) }).collect::<Vec<_>>(), "history": hist, "op": op});
    let mut one_step = |hist: &Vec<Op>, op: &Op, enqueue: bool, seen: &mut HashMap<Canon, Vec<Op>>, alternates: &mut HashMap<Canon, Vec<Vec<Op>>>, frontier: &mut VecDeque<Vec<Op>>| {
        let mut h = hist.clone();
        h.push(op.clone());
        let (answers, canon, tx_now) = replay(&base, &spent, &h);
        r.trans(1);
        if let (Op::Q(q), Some(Some(got))) = (op, answers.last()) {
            let exp = fresh_answer(&tx_now, &spent, q);
            r.trace(1);
            if *got != exp {
                let cls = match q {
                    Query::Legacy { .. } => "legacy".to_string(),
                    Query::Segwit { .. } => "segwit".to_string(),
                    Query::Taproot { ty, prev, .. } => format!("taproot/{:02x}/{:?}", ty, prev),
                };
                r.violation(format!("cache-answer-differs-from-fresh/{}", cls), case(hist, op), format!("after {} operations: cache says {:?}, a fresh cache says {:?}", hist.len(), got, exp));
            }
            match got {
                Answer::Digest(_) => r.outcome("digest"),
                Answer::Err(e) => r.outcome(e),
                Answer::Panic(p) => {
                    r.outcome("panic");
                    r.violation(format!("panic@{}", crate::engine::panic_site(p)), case(hist, op), p.clone());
                }
            }
        }
        if let (Op::MutOutOfRange, Some(Some(Answer::Err(s)))) = (op, answers.last()) {
            if s != "None" {
                r.violation("witness_mut-out-of-range-some", case(hist, op), "witness_mut(usize::MAX) returned Some");
            }
        }
        // a transaction edit must be exactly the requested edit on script_witness and nothing else
        if canon.2.iter().any(|w| w.len() > MAX_WITNESS_DEPTH) {
            return; // beyond the witness-depth bound: not enqueued
        }
        if enqueue {
            if !seen.contains_key(&canon) && seen.len() >= MAX_STATES_PER_TX {
                capped.store(true, std::sync::atomic::Ordering::Relaxed);
                return;
            }
            if !seen.contains_key(&canon) {
                seen.insert(canon, h.clone());
                frontier.push_back(h);
                r.state(1);
            } else if seen[&canon] != h {
                let alt = alternates.entry(canon).or_default();
                if alt.len() < 2 {
                    alt.push(h);
                }
            }
        }
    };
    while let Some(hist) = frontier.pop_front() {
        for op in queries.iter().chain(edits.iter()) {
            one_step(&hist, op, true, &mut seen, &mut alternates, &mut frontier);
        }
    }
    // differential check of the abstraction: same canonical state via a different history => same futures
    let mut alt_n = 0u64;
    let alts: Vec<Vec<Op>> = alternates.values().flatten().cloned().collect();
    for h in &alts {
        alt_n += 1;
        for op in queries.iter() {
            one_step(h, op, false, &mut seen, &mut alternates, &mut frontier);
        }
    }
    if capped.load(std::sync::atomic::Ordering::Relaxed) {
        // not a verdict by itself: the bound actually completed is reported, and exhaustive is withdrawn
        r.not_exhaustive();
        r.set_extra("state_cap_hit", json!(format!("tx {}: more than {} canonical states (cache contents vary with the history); graph not closed", tx_id, MAX_STATES_PER_TX)));
    }
    r.add_extra_count("canonical_states", seen.len() as u64);
    r.add_extra_count("alternate_histories_replayed", alt_n);
    let masks: std::collections::BTreeSet<[bool; 3]> = seen.keys().map(|k| k.0).collect();
    r.add_extra_count("distinct_fill_masks_sum", masks.len() as u64);
    // non-vacuity: the object must actually have several distinct internal states (lazily filled caches)
    let fingerprints: std::collections::BTreeSet<u64> = seen.keys().map(|k| k.1).collect();
    r.add_extra_count("distinct_object_fingerprints_sum", fingerprints.len() as u64);
    if fingerprints.len() < 4 {
        r.machinery(format!("tx {}: only {} distinct cache-object states reached; the query alphabet is not exercising the caches (or the Debug rendering no longer shows them)", tx_id, fingerprints.len()));
    }
    r.nontrivial(fnv(&c.tx.enc_full()));
    if r.sample_room() {
        let longest = seen.values().max_by_key(|h| h.len()).cloned().unwrap_or_default();
        r.sample(json!({"tx_inputs": c.tx.ins.len(), "canonical_states": seen.len(), "fill_masks": masks.len(), "longest_shortest_history": longest}));
    }
}

/// raw sequences (no state merging) over a query sub-alphabet
fn raw_sequences(r: &Report, c: &SigCase, len: usize) {
    let base = to_tx(&c.tx);
    let spent: Vec<TxOut> = c.spent.iter().map(to_txout).collect();
    let n = c.tx.ins.len();
    let mut sub: Vec<Op> = Vec::new();
    for idx in [0, n - 1] {
        for q in [
            Query::Legacy { idx, script: 1, ty: 0x01 },
            Query::Legacy { idx, script: 1, ty: 0x83 },
            Query::Segwit { idx, script: 1, value: 0, ty: 0x01 },
            Query::Segwit { idx, script: 2, value: 1, ty: 0x82 },
            Query::Segwit { idx, script: 1, value: 0, ty: 0x03 },
            Query::Taproot { idx, ty: 0x00, annex: 0, leaf: 0, prev: PrevMode::All },
            Query::Taproot { idx, ty: 0x81, annex: 0, leaf: 0, prev: PrevMode::OneSelf },
            Query::Taproot { idx, ty: 0x83, annex: 2, leaf: 3, prev: PrevMode::OneSelf },
            Query::Taproot { idx, ty: 0x01, annex: 0, leaf: 1, prev: PrevMode::OneSelf },
            Query::Taproot { idx, ty: 0x02, annex: 1, leaf: 1, prev: PrevMode::All },
            Query::Taproot { idx, ty: 0x03, annex: 0, leaf: 0, prev: PrevMode::AllShort },
        ] {
            if !sub.contains(&Op::Q(q.clone())) {
                sub.push(Op::Q(q));
            }
        }
    }
    sub.push(Op::Push(0, vec![1]));
    sub.push(Op::Clear(0));
    let seqs = crate::engine::product_vec(&vec![sub.len(); len]);
    r.add_extra_count("raw_sequences", seqs.len() as u64);
    seqs.par_iter().for_each(|s| {
        let hist: Vec<Op> = s.iter().map(|&i| sub[i].clone()).collect();
        // answers along the history vs fresh answers on the transaction as it was at that point
        let mut tx = base.clone();
        let (answers, _, _) = replay(&base, &spent, &hist);
        r.trans(hist.len() as u64);
        for (k, op) in hist.iter().enumerate() {
            match op {
                Op::Q(q) => {
                    let exp = fresh_answer(&tx, &spent, q);
                    r.trace(1);
                    if answers[k].as_ref() != Some(&exp) {
                        r.violation("raw-sequence/cache-answer-differs-from-fresh", json!({"tx": hex(&c.tx.enc_full()), "history": &hist[..k], "op": op}), format!("step {}: cache {:?} fresh {:?}", k, answers[k], exp));
                    }
                }
                Op::Push(i, item) => tx.input[*i].witness.script_witness.push(item.clone()),
                Op::Clear(i) => tx.input[*i].witness.script_witness.clear(),
                Op::MutOutOfRange => {}
            }
        }
    });
}

/// One vs All relations on fresh caches (second sentence of the property)
fn one_vs_all(r: &Report, c: &SigCase) {
    let tx = to_tx(&c.tx);
    let spent: Vec<TxOut> = c.spent.iter().map(to_txout).collect();
    for idx in 0..c.tx.ins.len() {
        for &ty in &crate::props::c03::SCHNORR_TYPES {
            for (annex, leaf) in [(0usize, 0usize), (2, 1), (1, 3)] {
                let all = fresh_answer(&tx, &spent, &Query::Taproot { idx, ty, annex, leaf, prev: PrevMode::All });
                let one = fresh_answer(&tx, &spent, &Query::Taproot { idx, ty, annex, leaf, prev: PrevMode::OneSelf });
                let other = fresh_answer(&tx, &spent, &Query::Taproot { idx, ty, annex, leaf, prev: PrevMode::OneOther });
                r.trans(3);
                let case = || json!({"tx": hex(&c.tx.enc_full()), "idx": idx, "ty": ty, "annex": annex, "leaf": leaf});
                if ty & 0x80 != 0 {
                    if one != all {
                        r.violation(format!("anyonecanpay-one-differs-from-all/{:02x}", ty), case(), format!("One: {:?}  All: {:?}", one, all));
                    }
                    if !matches!(other, Answer::Err(_)) {
                        r.violation(format!("one-with-wrong-index-not-reported/{:02x}", ty), case(), format!("{:?}", other));
                    }
                } else {
                    if !matches!(one, Answer::Err(_)) {
                        r.violation(format!("one-for-type-needing-all-not-reported/{:02x}", ty), case(), format!("{:?}", one));
                    }
                    if !matches!(other, Answer::Err(_)) {
                        r.violation(format!("one-other-for-type-needing-all-not-an-error/{:02x}", ty), case(), format!("{:?}", other));
                    }
                }
            }
        }
    }
}

pub fn run(r: &Report) {
    let all = sig_cases(false);
    // ~40 transactions: every single-input kind x output counts, and a spread of 2- and 3-input ones
    let mut picked: Vec<SigCase> = Vec::new();
    for (k, c) in all.iter().enumerate() {
        let n = c.tx.ins.len();
        let take = match n {
            1 => c.tx.outs.len() <= 1 || k % 17 == 0,
            2 => k % r.tier.pick(97, 31) == 0,
            _ => k % r.tier.pick(131, 41) == 0,
        };
        if take {
            picked.push(c.clone());
        }
    }
    r.set_rule(
        "for each of the selected transactions (1..3 inputs incl. issuance / pegin / reissuance, 0..3 outputs): breadth-first search \
         from SighashCache::new(&mut tx); alphabet = every query of the C03 product for every input (legacy, segwit, taproot key/script, \
         annex, Prevouts All/One(self)/One(other)/short/long) + witness_mut push []/push [1]/clear on the first and last input + \
         out-of-range witness_mut; canonical state = (fingerprint of every field of the cache object from its derived Debug rendering, script-witness contents, stack depth <= 2); every \
         answer compared with a fresh cache on the transaction as edited; alternates reaching a known state are replayed with the full \
         query alphabet; plus all raw sequences of length 3 (4 thorough) over a 24-operation sub-alphabet without merging; plus the \
         One/All relations on fresh caches. non-trivial = distinct transactions whose state graph was closed",
    );
    r.set_extra("transactions", json!(picked.len()));
    picked.par_iter().enumerate().for_each(|(i, c)| {
        r.eval(1);
        explore(r, c, i);
        one_vs_all(r, c);
    });
    let raw_len = r.tier.pick(3usize, 4);
    for c in picked.iter().filter(|c| c.tx.ins.len() >= 2).take(r.tier.pick(3, 8)) {
        raw_sequences(r, c, raw_len);
    }
    for c in picked.iter().filter(|c| c.tx.ins.len() == 1).take(2) {
        raw_sequences(r, c, raw_len);
    }
    r.assume("canonical state = complete object state as rendered by the derived Debug impl of SighashCache (a field excluded from Debug, or state kept outside the object, is only covered by the alternate-history replays and the unmerged raw sequences)");
    r.assume("witness stacks bounded to depth 2 on the first and last input; queries always pass the true spent outputs");
}

pub fn replay_case(case: &Value) -> String {
    let tx = match case["tx"].as_str().and_then(|h| crate::oracle::parse::parse_tx(&crate::engine::unhex(h))) {
        Some(t) => t,
        None => return "cannot parse case tx".into(),
    };
    let mut spent = Vec::new();
    for s in case["spent"].as_array().cloned().unwrap_or_default() {
        let b = crate::engine::unhex(s.as_str().unwrap_or(""));
        let mut c = crate::oracle::parse::Cur::new(&b);
        match c.txout() {
            Some(o) => spent.push(to_txout(&o)),
            None => return "cannot parse spent output".into(),
        }
    }
    let hist: Vec<Op> = match serde_json::from_value(case["history"].clone()) {
        Ok(h) => h,
        Err(e) => return format!("bad history: {}", e),
    };
    let op: Op = match serde_json::from_value(case["op"].clone()) {
        Ok(h) => h,
        Err(e) => return format!("bad op: {}", e),
    };
    let base = to_tx(&tx);
    let mut h = hist.clone();
    h.push(op.clone());
    let (answers, _, tx_now) = replay(&base, &spent, &h);
    match (&op, answers.last()) {
        (Op::Q(q), Some(Some(got))) => {
            let exp = fresh_answer(&tx_now, &spent, q);
            if *got == exp { format!("HOLDS cache and fresh both answer {:?}", got) } else { format!("VIOLATES cache {:?} fresh {:?}", got, exp) }
        }
        _ => "HOLDS (edit operation)".into(),
    }
}
