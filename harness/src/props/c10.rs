//! C10 — fallible public APIs are total: errors, never panics, crashes or unbounded allocation.
//! API x input matrix. Every call is monitored: catch_unwind (panic incl. arithmetic overflow),
//! counting allocator (peak live bytes during the call), and the whole sweep runs in a child process
//! whose fatal signals are turned into violations carrying the offending input.

use crate::engine::{alloc, crash, dev, fnv, guard, hex_short, Report};
use crate::gen::{self, pat32, secp};
use crate::oracle::model::*;
use elements::encode::{deserialize, Decodable};
use elements::hashes::Hash;
use elements::pset::PartiallySignedTransaction as Pset;
use elements::{Address, AddressParams, Script, Transaction};
use rayon::prelude::*;
use serde_json::{json, Value};
use std::collections::HashMap;
use std::str::FromStr;

const ALLOC_BASE: usize = 64 << 20;

type Api = (&'static str, Box<dyn Fn(&[u8]) -> bool + Send + Sync>);

fn dec<T: Decodable>(b: &[u8]) -> bool {
    deserialize::<T>(b).is_ok()
}

fn tx_accessors(t: &Transaction) {
    let _ = (t.txid(), t.wtxid(), t.size(), t.weight(), t.vsize(), t.discount_weight(), t.discount_vsize(), t.is_coinbase(), t.has_witness());
    let _ = t.all_fees();
    let _ = t.fee_in(elements::AssetId::from_byte_array(pat32(0)));
    let s = crate::gen::secp();
    // the cryptographic accessors (rewind, proof verification: ~0.1-5 ms each) run on a deterministic 1-in-2048 subset of
    // the decoded transactions, chosen by a hash of the txid and wtxid, so that the neighbourhood sweep stays fast
    let heavy = crate::engine::fnv(t.wtxid().as_ref()).wrapping_mul(31).wrapping_add(crate::engine::fnv(t.txid().as_ref())) % 2048 == 0;
    for i in &t.input {
        let _ = (i.pegin_prevout(), i.issuance_ids(), i.outpoint_flag(), i.is_coinbase());
        if let Some(pd) = i.pegin_data() {
            // the fallible second-stage parsers of the pegin witness, and its re-assembly
            let _ = (pd.parse_tx().is_ok(), pd.parse_merkle_proof().is_ok(), pd.to_pegin_witness().len());
        }
        if heavy && i.has_issuance() && t.input.len() <= 4 {
            let mut j = i.clone();
            let vbf = elements::confidential::ValueBlindingFactor::from_slice(crate::gen::tweak(9001).as_ref()).unwrap();
            let _ = j.blind_issuances_with_bfs(s, vbf, vbf, crate::gen::sk(9002), crate::gen::sk(9003)).is_ok();
        }
    }
    for o in &t.output {
        let _ = (o.pegout_data().is_some(), o.is_pegout(), o.minimum_value(), o.is_null_data(), o.is_fee(), o.is_partially_blinded());
        let _ = (o.script_pubkey.asm(), o.script_pubkey.is_provably_unspendable(), o.witness.rangeproof_len(), o.witness.surjectionproof_len());
        if heavy && t.output.len() <= 4 && o.witness.rangeproof.is_some() {
            let _ = o.unblind(s, crate::gen::sk(9004)).is_ok();
        }
    }
    if heavy && t.input.len() <= 3 && t.output.len() <= 4 {
        // amount verification against semantically arbitrary spent outputs (right count, wrong count)
        let spent: Vec<elements::TxOut> = (0..t.input.len()).map(|k| t.output.get(k).cloned().unwrap_or_default()).collect();
        let _ = t.verify_tx_amt_proofs(s, &spent).is_ok();
        let _ = t.verify_tx_amt_proofs(s, &[]).is_ok();
    }
    let p = Pset::from_tx(t.clone());
    let _ = (p.extract_tx().is_ok(), p.unique_id().is_ok(), p.locktime().is_ok());
}

fn s_api(f: impl Fn(&str) -> bool + Send + Sync + 'static) -> Box<dyn Fn(&[u8]) -> bool + Send + Sync> {
    Box::new(move |b| match std::str::from_utf8(b) {
        Ok(s) => f(s),
        Err(_) => false,
    })
}

/// the API table: name, call on raw bytes (string APIs see the bytes as UTF-8 when valid)
pub fn apis() -> Vec<Api> {
    use elements::blech32::decode::{CheckedHrpstring, SegwitHrpstring, UncheckedHrpstring};
    use elements::blech32::{Blech32, Blech32m};
    let mut v: Vec<Api> = vec![
        ("decode/Transaction", Box::new(|b| match deserialize::<Transaction>(b) {
            Ok(t) => {
                tx_accessors(&t);
                true
            }
            Err(_) => false,
        })),
        ("decode/TxIn", Box::new(|b| match deserialize::<elements::TxIn>(b) {
            Ok(i) => {
                let _ = (i.pegin_data().is_some(), i.issuance_ids(), i.has_issuance());
                true
            }
            Err(_) => false,
        })),
        ("decode/TxOut", Box::new(|b| match deserialize::<elements::TxOut>(b) {
            Ok(o) => {
                let _ = (o.pegout_data().is_some(), o.minimum_value(), o.is_null_data(), o.is_fee());
                true
            }
            Err(_) => false,
        })),
        ("decode/Block", Box::new(|b| match deserialize::<elements::Block>(b) {
            Ok(k) => {
                let _ = (k.block_hash(), k.size(), k.weight(), k.header.calculate_dynafed_params_root());
                true
            }
            Err(_) => false,
        })),
        ("decode/BlockHeader", Box::new(|b| match deserialize::<elements::BlockHeader>(b) {
            Ok(h) => {
                let _ = (h.block_hash(), h.calculate_dynafed_params_root(), h.is_dynafed());
                true
            }
            Err(_) => false,
        })),
        ("decode/dynafed::Params", Box::new(|b| match deserialize::<elements::dynafed::Params>(b) {
            Ok(p) => {
                let _ = (p.calculate_root(), p.clone().into_compact());
                true
            }
            Err(_) => false,
        })),
        ("decode/dynafed::FullParams", Box::new(dec::<elements::dynafed::FullParams>)),
        ("decode/Asset", Box::new(dec::<elements::confidential::Asset>)),
        ("decode/Value", Box::new(dec::<elements::confidential::Value>)),
        ("decode/Nonce", Box::new(dec::<elements::confidential::Nonce>)),
        ("decode/TxInWitness", Box::new(dec::<elements::TxInWitness>)),
        ("decode/TxOutWitness", Box::new(|b| match deserialize::<elements::TxOutWitness>(b) {
            Ok(w) => {
                let o = elements::TxOut { witness: w, value: elements::confidential::Value::Confidential(crate::psetgen::comm(0)), ..Default::default() };
                let _ = o.minimum_value();
                true
            }
            Err(_) => false,
        })),
        ("decode/AssetIssuance", Box::new(dec::<elements::AssetIssuance>)),
        ("decode/OutPoint", Box::new(dec::<elements::OutPoint>)),
        ("decode/Script", Box::new(dec::<Script>)),
        ("decode/LockTime", Box::new(dec::<elements::LockTime>)),
        ("decode/Sequence", Box::new(dec::<elements::Sequence>)),
        ("decode/AssetId", Box::new(dec::<elements::AssetId>)),
        ("decode/Txid", Box::new(dec::<elements::Txid>)),
        ("decode/Vec<Vec<u8>>", Box::new(dec::<Vec<Vec<u8>>>)),
        ("decode/Vec<TxOut>", Box::new(dec::<Vec<elements::TxOut>>)),
        ("decode/Vec<TxIn>", Box::new(dec::<Vec<elements::TxIn>>)),
        ("decode/RangeProof", Box::new(dec::<elements::secp256k1_zkp::RangeProof>)),
        ("decode/SurjectionProof", Box::new(dec::<elements::secp256k1_zkp::SurjectionProof>)),
        ("decode/Pset", Box::new(|b| match deserialize::<Pset>(b) {
            Ok(p) => {
                let _ = (p.extract_tx().is_ok(), p.unique_id().is_ok(), p.locktime().is_ok(), p.sanity_check().is_ok());
                let _ = p.surjection_inputs(&HashMap::new()).is_ok();
                let mut q = p.clone();
                let _ = q.merge(p).is_ok();
                true
            }
            Err(_) => false,
        })),
        ("decode/pset::Input", Box::new(dec::<elements::pset::Input>)),
        ("decode/pset::Output", Box::new(dec::<elements::pset::Output>)),
        ("decode/pset::Global", Box::new(dec::<elements::pset::Global>)),
        ("decode/pset::raw::Pair", Box::new(dec::<elements::pset::raw::Pair>)),
        ("decode/pset::raw::ProprietaryKey", Box::new(dec::<elements::pset::raw::ProprietaryKey>)),
        ("script/instructions", Box::new(|b| {
            let s = Script::from(b.to_vec());
            let n = s.instructions().count() + s.instructions_minimal().count();
            let _ = s.asm();
            let _ = (s.is_p2pkh(), s.is_p2sh(), s.is_witness_program(), s.is_v1plus_p2witprog(), s.is_op_return(), s.is_provably_unspendable());
            let _ = Address::from_script(&s, None, &AddressParams::LIQUID);
            n > 0
        })),
        ("script/read_scriptint", Box::new(|b| elements::script::read_scriptint(b).is_ok())),
        ("script/read_scriptbool", Box::new(|b| elements::script::read_scriptbool(b))),
        ("script/read_uint", Box::new(|b| {
            let mut ok = false;
            for size in 0..=16usize {
                ok |= elements::script::read_uint(b, size).is_ok();
            }
            ok
        })),
        ("taproot/ControlBlock::from_slice", Box::new(|b| match elements::taproot::ControlBlock::from_slice(b) {
            Ok(cb) => {
                let _ = (cb.size(), cb.serialize());
                let k = elements::schnorr::TweakedPublicKey::new(crate::psetgen::xonly(0));
                let _ = cb.verify_taproot_commitment(secp(), &k, &Script::new());
                true
            }
            Err(_) => false,
        })),
        ("taproot/TaprootMerkleBranch::from_slice", Box::new(|b| elements::taproot::TaprootMerkleBranch::from_slice(b).is_ok())),
        ("taproot/LeafVersion::from_u8", Box::new(|b| b.first().map(|x| elements::taproot::LeafVersion::from_u8(*x).is_ok()).unwrap_or(false))),
        ("schnorr/SchnorrSig::from_slice", Box::new(|b| elements::SchnorrSig::from_slice(b).is_ok())),
        ("sighash/Annex::new", Box::new(|b| elements::sighash::Annex::new(b).is_ok())),
        ("confidential/from_commitment", Box::new(|b| {
            let a = elements::confidential::Value::from_commitment(b).is_ok();
            let c = elements::confidential::Asset::from_commitment(b).is_ok();
            let d = elements::confidential::Nonce::from_commitment(b).is_ok();
            a | c | d
        })),
        ("confidential/blinding-factor::from_slice", Box::new(|b| {
            elements::confidential::AssetBlindingFactor::from_slice(b).is_ok() | elements::confidential::ValueBlindingFactor::from_slice(b).is_ok()
        })),
        ("elip100/metadata::deserialize", Box::new(|b| {
            elements::pset::elip100::AssetMetadata::deserialize(b).is_ok() | elements::pset::elip100::TokenMetadata::deserialize(b).is_ok()
        })),
        ("pegin/from_pegin_witness", Box::new(|b| {
            // split the bytes into up to 6 witness items
            let n = 6usize;
            let items: Vec<Vec<u8>> = (0..n).map(|i| b.iter().skip(i).step_by(n).cloned().collect()).collect();
            let op = elements::bitcoin::OutPoint::null();
            elements::PeginData::from_pegin_witness(&items, op).is_ok()
        })),
        // ---- text parsers
        ("text/Address::from_str", s_api(|s| Address::from_str(s).is_ok())),
        ("text/Address::parse_with_params", s_api(|s| {
            Address::parse_with_params(s, &AddressParams::LIQUID).is_ok()
                | Address::parse_with_params(s, &AddressParams::ELEMENTS).is_ok()
                | Address::parse_with_params(s, &AddressParams::LIQUID_TESTNET).is_ok()
        })),
        ("text/blech32::UncheckedHrpstring", s_api(|s| match UncheckedHrpstring::new(s) {
            Ok(u) => {
                let a = u.has_valid_checksum::<Blech32>();
                let b = u.has_valid_checksum::<Blech32m>();
                let _ = u.hrp();
                a | b
            }
            Err(_) => false,
        })),
        ("text/blech32::CheckedHrpstring", s_api(|s| {
            let a = CheckedHrpstring::new::<Blech32>(s).map(|c| c.byte_iter().count()).is_ok();
            let b = CheckedHrpstring::new::<Blech32m>(s).map(|c| c.validate_segwit().is_ok()).is_ok();
            a | b
        })),
        ("text/blech32::SegwitHrpstring::new", s_api(|s| SegwitHrpstring::new(s).map(|x| x.byte_iter().count()).is_ok())),
        ("text/blech32::SegwitHrpstring::new_bech32", s_api(|s| SegwitHrpstring::new_bech32(s).map(|x| x.byte_iter().count()).is_ok())),
        ("text/Script::from_hex", s_api(|s| Script::from_hex(s).is_ok() | Script::from_hex_no_prefix(s).is_ok())),
        ("text/Pset::from_str", s_api(|s| Pset::from_str(s).is_ok())),
        ("text/OutPoint", s_api(|s| elements::OutPoint::from_str(s).is_ok())),
        ("text/hash-newtypes", s_api(|s| {
            elements::Txid::from_str(s).is_ok() | elements::AssetId::from_str(s).is_ok() | elements::ContractHash::from_str(s).is_ok() | elements::BlockHash::from_str(s).is_ok()
        })),
        ("text/blinding-factors", s_api(|s| {
            elements::confidential::AssetBlindingFactor::from_str(s).is_ok()
                | elements::confidential::ValueBlindingFactor::from_str(s).is_ok()
                | elements::confidential::AssetBlindingFactor::from_hex(s).is_ok()
        })),
        ("text/integers", s_api(|s| {
            elements::LockTime::from_str(s).is_ok()
                | elements::Sequence::from_str(s).is_ok()
                | elements::locktime::Height::from_str(s).is_ok()
                | elements::locktime::Time::from_str(s).is_ok()
        })),
        ("text/sighash-types", s_api(|s| {
            elements::EcdsaSighashType::from_str(s).is_ok() | elements::SchnorrSighashType::from_str(s).is_ok() | elements::pset::PsbtSighashType::from_str(s).is_ok()
        })),
        // raw PSET keys and proprietary keys (second-stage parsing of a key's bytes), and integer-typed conversions fed
        // from the first bytes of the input
        ("slice/pset::raw::Key+ProprietaryKey", Box::new(|b| match deserialize::<elements::pset::raw::Key>(b) {
            Ok(k) => {
                let _ = elements::pset::raw::ProprietaryKey::<u8>::from_key(&k).map(|pk| pk.to_key());
                true
            }
            Err(_) => {
                let k = elements::pset::raw::Key { type_value: b.first().copied().unwrap_or(0xfc), key: b.get(1..).unwrap_or(&[]).to_vec() };
                let _ = elements::pset::raw::ProprietaryKey::<u8>::from_key(&k).is_ok();
                let k = elements::pset::raw::Key { type_value: 0xfc, key: b.to_vec() };
                elements::pset::raw::ProprietaryKey::<u8>::from_key(&k).is_ok()
            }
        })),
        ("slice/pset::raw::Pair", Box::new(dec::<elements::pset::raw::Pair>)),
        ("int/sighash+locktime-conversions", Box::new(|b| {
            let mut w = [0u8; 4];
            for (i, x) in b.iter().take(4).enumerate() {
                w[i] = *x;
            }
            let n = u32::from_le_bytes(w);
            let t = elements::pset::PsbtSighashType::from_u32(n);
            let mut i = elements::pset::Input::default();
            i.sighash_type = Some(t);
            let _ = (t.ecdsa_hash_ty(), t.schnorr_hash_ty(), i.ecdsa_hash_ty(), i.schnorr_hash_ty(), format!("{}", t));
            let _ = (elements::EcdsaSighashType::from_standard(n).is_ok(), elements::EcdsaSighashType::from_u32(n), elements::SchnorrSighashType::from_u8(n as u8));
            let _ = (elements::locktime::Height::from_consensus(n).is_ok(), elements::locktime::Time::from_consensus(n).is_ok(), elements::LockTime::from_height(n).is_ok(), elements::LockTime::from_time(n).is_ok());
            let _ = (elements::Sequence(n).is_relative_lock_time(), elements::Sequence::from_seconds_floor(n).is_ok(), elements::Sequence::from_seconds_ceil(n).is_ok());
            let _ = elements::opcodes::Ordinary::try_from_all(elements::opcodes::All::from(n as u8));
            let _ = elements::taproot::LeafVersion::from_u8(n as u8).is_ok();
            true
        })),
        ("text/ContractHash::from_json_contract", s_api(|s| elements::ContractHash::from_json_contract(s).is_ok())),
        ("text/opcodes", s_api(|s| s.len() < 40 && format!("{:?}", elements::opcodes::All::from(s.len() as u8)).len() > 0)),
    ];
    v.shrink_to_fit();
    v
}

/// one monitored call
pub fn probe(r: &Report, api: &Api, input: &[u8]) {
    r.trans(1);
    crash::crumb(api.0, input);
    let (res, peak) = alloc::measure(|| guard(|| (api.1)(input)));
    match res {
        Err(p) => r.violation(format!("panic/{}@{}", api.0, crate::engine::panic_site(&p)), json!({"api": api.0, "hex": crate::engine::hex(input)}), format!("{} on input {}", p, hex_short(input))),
        Ok(acc) => r.acc(acc),
    }
    if peak > ALLOC_BASE + 64 * input.len() {
        r.violation(format!("allocation/{}", api.0), json!({"api": api.0, "hex": crate::engine::hex(input), "peak_bytes": peak}), format!("peak live allocation {} bytes for a {}-byte input", peak, input.len()));
    }
}

fn read_hex_files() -> Vec<(String, Vec<u8>)> {
    let mut out = Vec::new();
    if let Ok(rd) = std::fs::read_dir("/repo/tests/data") {
        let mut names: Vec<_> = rd.flatten().map(|e| e.path()).collect();
        names.sort();
        for p in names {
            if let Ok(s) = std::fs::read_to_string(&p) {
                let t = s.trim();
                if !t.is_empty() && t.len() % 2 == 0 && t.bytes().all(|c| c.is_ascii_hexdigit()) {
                    out.push((p.file_name().unwrap().to_string_lossy().to_string(), crate::engine::unhex(t)));
                }
            }
        }
    }
    out
}

// ------------------------------------------------------------------------------------------------
// (iii) in-memory fallible operations with structurally valid, semantically arbitrary arguments

fn op<T>(r: &Report, name: &str, case: Value, f: impl FnOnce() -> T) {
    r.trans(1);
    crash::clear();
    let (res, peak) = alloc::measure(|| guard(f));
    if let Err(p) = res {
        r.violation(format!("panic/{}@{}", name, crate::engine::panic_site(&p)), case.clone(), p);
    }
    if peak > ALLOC_BASE {
        r.violation(format!("allocation/{}", name), case, format!("peak live allocation {} bytes", peak));
    }
}

fn in_memory_ops(r: &Report) {
    use crate::props::c04::{self, InSpec, OutKind, OutSpec, Scenario};
    let s = secp();
    // Transaction::blind with arbitrary marking / outputs
    let base = Scenario {
        inputs: vec![InSpec { asset: 0, conf: true, issuance: None, asset_only: false }, InSpec { asset: 1, conf: false, issuance: None, asset_only: false }],
        outputs: vec![
            OutSpec { asset: 0, value: 10, kind: OutKind::Marked(2) },
            OutSpec { asset: 1, value: 11, kind: OutKind::Marked(3) },
            OutSpec { asset: 0, value: 3, kind: OutKind::Fee },
        ],
        rng_stream: 0,
    };
    let b = c04::build(&base);
    let variants: Vec<(&str, Box<dyn Fn(&mut Transaction)>)> = vec![
        ("as-is", Box::new(|_t| {})),
        ("no-output-marked", Box::new(|t| t.output.iter_mut().for_each(|o| o.nonce = elements::confidential::Nonce::Null))),
        ("one-output-marked", Box::new(|t| t.output[1].nonce = elements::confidential::Nonce::Null)),
        ("no-outputs", Box::new(|t| t.output.clear())),
        ("no-inputs", Box::new(|t| t.input.clear())),
        ("only-fee", Box::new(|t| {
            t.output.remove(0);
            t.output.remove(0);
        })),
        ("marked-fee", Box::new(|t| t.output[2].nonce = t.output[0].nonce)),
        ("zero-value-marked", Box::new(|t| t.output[0].value = elements::confidential::Value::Explicit(0))),
        ("huge-value-marked", Box::new(|t| t.output[0].value = elements::confidential::Value::Explicit(u64::MAX))),
        ("null-asset", Box::new(|t| t.output[0].asset = elements::confidential::Asset::Null)),
        ("null-value", Box::new(|t| t.output[1].value = elements::confidential::Value::Null)),
        ("confidential-output", Box::new(|t| t.output[0].value = elements::confidential::Value::Confidential(crate::psetgen::comm(0)))),
        ("unaddressable-script", Box::new(|t| t.output[0].script_pubkey = Script::from(vec![0x51, 0x52, 0x53]))),
        ("empty-script-marked", Box::new(|t| t.output[0].script_pubkey = Script::new())),
        ("explicit-nonce", Box::new(|t| t.output[0].nonce = elements::confidential::Nonce::Explicit([7; 32]))),
        ("issuance-on-input", Box::new(|t| {
            t.input[0].asset_issuance.amount = elements::confidential::Value::Explicit(5);
        })),
        ("issuance-zero-amount", Box::new(|t| {
            t.input[0].asset_issuance.amount = elements::confidential::Value::Explicit(0);
            t.input[0].asset_issuance.inflation_keys = elements::confidential::Value::Explicit(1);
        })),
        ("issuance-confidential-amount", Box::new(|t| {
            t.input[0].asset_issuance.amount = elements::confidential::Value::Confidential(crate::psetgen::comm(1));
        })),
    ];
    for (name, f) in &variants {
        for blind_issuances in [false, true] {
            for secrets_mode in 0..3 {
                let mut t = b.tx.clone();
                f(&mut t);
                let secrets: Vec<elements::TxOutSecrets> = match secrets_mode {
                    0 => b.secrets.clone(),
                    1 => vec![],
                    _ => b.secrets[..1].to_vec(),
                };
                let mut rng = crate::engine::DetRng::new(r.seed, 0xC10, 1);
                op(r, "Transaction::blind", json!({"variant": name, "blind_issuances": blind_issuances, "secrets": secrets_mode}), || {
                    let res = t.blind(&mut rng, s, &secrets, blind_issuances);
                    let _ = t.verify_tx_amt_proofs(s, &b.spent);
                    res.is_ok()
                });
            }
        }
    }
    // verify with arbitrary spent outputs / unblind with arbitrary keys
    {
        let blinded = c04::check(&base, r.seed).ok();
        if let Some(t) = blinded {
            for n in 0..4usize {
                let spent: Vec<elements::TxOut> = (0..n).map(|i| b.spent[i % 2].clone()).collect();
                op(r, "verify_tx_amt_proofs", json!({"spent_len": n}), || t.verify_tx_amt_proofs(s, &spent).is_ok());
            }
            let mut nulls = b.spent.clone();
            nulls[0].asset = elements::confidential::Asset::Null;
            op(r, "verify_tx_amt_proofs", json!({"spent": "null asset"}), || t.verify_tx_amt_proofs(s, &nulls).is_ok());
            let mut nulls = b.spent.clone();
            nulls[1].value = elements::confidential::Value::Null;
            op(r, "verify_tx_amt_proofs", json!({"spent": "null value"}), || t.verify_tx_amt_proofs(s, &nulls).is_ok());
            for (j, o) in t.output.iter().enumerate() {
                op(r, "TxOut::unblind", json!({"output": j, "key": "wrong"}), || o.unblind(s, gen::sk(1)).is_ok());
                let mut o2 = o.clone();
                o2.witness.rangeproof = None;
                op(r, "TxOut::unblind", json!({"output": j, "key": "no-proof"}), || o2.unblind(s, gen::sk(1000 + j as u64)).is_ok());
                let mut o3 = o.clone();
                o3.nonce = elements::confidential::Nonce::Null;
                op(r, "TxOut::unblind", json!({"output": j, "key": "no-nonce"}), || o3.unblind(s, gen::sk(1000 + j as u64)).is_ok());
            }
        }
    }
    // PSET operations with inconsistent configuration
    {
        use crate::props::c09::{build as build9, Proto};
        let proto = Proto { inputs: vec![(0, true, 0), (1, false, 1)], outs_per_party: vec![1, 1], extra_explicit: true, issuance: 0, magnitude: 0, nonwit_mask: 0, fee_first: false, rng_stream: 0 };
        let b9 = build9(&proto);
        let muts: Vec<(&str, Box<dyn Fn(&mut Pset)>)> = vec![
            ("as-is", Box::new(|_p| {})),
            ("blinder-index-out-of-range", Box::new(|p| p.outputs_mut()[0].blinder_index = Some(99))),
            ("blinder-index-max", Box::new(|p| p.outputs_mut()[0].blinder_index = Some(u32::MAX))),
            ("missing-witness-utxo", Box::new(|p| p.inputs_mut()[0].witness_utxo = None)),
            ("missing-amount", Box::new(|p| p.outputs_mut()[0].amount = None)),
            ("missing-asset", Box::new(|p| p.outputs_mut()[1].asset = None)),
            ("no-marked-outputs", Box::new(|p| p.outputs_mut().iter_mut().for_each(|o| o.blinding_key = None))),
            ("no-blinder-index", Box::new(|p| p.outputs_mut().iter_mut().for_each(|o| o.blinder_index = None))),
            ("no-outputs", Box::new(|p| { while p.n_outputs() > 0 { p.remove_output(0); } })),
            ("no-inputs", Box::new(|p| { while p.n_inputs() > 0 { p.remove_input(0); } })),
            ("issuance-input", Box::new(|p| { p.inputs_mut()[0].issuance_value_amount = Some(5); })),
            ("issuance-unblinded-flag", Box::new(|p| { p.inputs_mut()[0].issuance_value_amount = Some(5); p.inputs_mut()[0].blinded_issuance = Some(0); })),
            ("zero-amount", Box::new(|p| p.outputs_mut()[0].amount = Some(0))),
            ("huge-amount", Box::new(|p| p.outputs_mut()[0].amount = Some(u64::MAX))),
            ("uncompressed-unaddressable", Box::new(|p| p.outputs_mut()[0].script_pubkey = Script::from(vec![0xff; 3]))),
            ("scalars-present", Box::new(|p| p.global.scalars.push(gen::tweak(1)))),
            ("null-utxo-asset", Box::new(|p| { if let Some(u) = p.inputs_mut()[0].witness_utxo.as_mut() { u.asset = elements::confidential::Asset::Null } })),
        ];
        for (name, f) in &muts {
            for secrets_mode in 0..4 {
                let mut p = b9.pset.clone();
                f(&mut p);
                let mut secrets: HashMap<usize, elements::TxOutSecrets> = HashMap::new();
                match secrets_mode {
                    0 => {
                        secrets.insert(0, b9.secrets[0]);
                    }
                    1 => {
                        secrets.insert(0, b9.secrets[0]);
                        secrets.insert(1, b9.secrets[1]);
                    }
                    2 => {
                        secrets.insert(7, b9.secrets[0]);
                    }
                    _ => {}
                }
                let case = json!({"mutation": name, "secrets": secrets_mode});
                let mut rng = crate::engine::DetRng::new(r.seed, 0xC10, 2);
                let mut p1 = p.clone();
                op(r, "Pset::blind_non_last", case.clone(), || p1.blind_non_last(&mut rng, s, &secrets).is_ok());
                let mut p2 = p.clone();
                op(r, "Pset::blind_last", case.clone(), || p2.blind_last(&mut rng, s, &secrets).is_ok());
                op(r, "Pset::surjection_inputs", case.clone(), || p.surjection_inputs(&secrets).is_ok());
                op(r, "Pset::extract_tx", case.clone(), || p.extract_tx().is_ok());
                op(r, "Pset::unique_id", case.clone(), || p.unique_id().is_ok());
                op(r, "Pset::locktime", case.clone(), || p.locktime().is_ok());
                let mut q = b9.pset.clone();
                op(r, "Pset::merge", case.clone(), || q.merge(p.clone()).is_ok());
                let mut q2 = p.clone();
                op(r, "Pset::merge", case.clone(), || q2.merge(b9.pset.clone()).is_ok());
                op(r, "Pset::remove_input/output", case.clone(), || {
                    let mut z = p.clone();
                    let a = z.remove_input(5).is_some();
                    let b = z.remove_output(usize::MAX).is_some();
                    a | b
                });
            }
        }
    }
    // taproot sighash with arbitrary indices / prevouts
    {
        use elements::sighash::{Prevouts, SighashCache};
        let cases = crate::props::c03::sig_cases(false);
        for c in cases.iter().step_by(97) {
            let tx = to_tx(&c.tx);
            let spent: Vec<elements::TxOut> = c.spent.iter().map(to_txout).collect();
            let n = tx.input.len();
            for idx in [0usize, n - 1, n, n + 1, usize::MAX] {
                for ty in crate::props::c03::SCHNORR_TYPES {
                    for pm in 0..5 {
                        let case = json!({"n_in": n, "n_out": tx.output.len(), "idx": idx, "ty": ty, "prevouts": pm});
                        op(r, "taproot_sighash", case, || {
                            let mut cache = SighashCache::new(&tx);
                            let sty = elements::SchnorrSighashType::from_u8(ty).unwrap();
                            let g = elements::BlockHash::from_byte_array(pat32(1));
                            let empty: Vec<elements::TxOut> = vec![];
                            match pm {
                                0 => cache.taproot_sighash(idx, &Prevouts::All(&spent), None, None, sty, g).is_ok(),
                                1 => cache.taproot_sighash(idx, &Prevouts::All(&empty), None, None, sty, g).is_ok(),
                                2 => cache.taproot_sighash(idx, &Prevouts::One(idx, &spent[0]), None, None, sty, g).is_ok(),
                                3 => cache.taproot_sighash(idx, &Prevouts::One(0, &spent[0]), None, None, sty, g).is_ok(),
                                _ => cache.taproot_key_spend_signature_hash(idx, &Prevouts::All(&spent[..n - 1]), sty, g).is_ok(),
                            }
                        });
                    }
                }
                op(r, "witness_mut", json!({"idx": idx}), || {
                    let mut t2 = tx.clone();
                    let mut cache = SighashCache::new(&mut t2);
                    cache.witness_mut(idx).is_some()
                });
            }
        }
    }
    // TaprootBuilder depths 0..130, Huffman weights
    {
        use elements::taproot::{LeafVersion, TapNodeHash, TaprootBuilder, TaprootSpendInfo};
        let ik = crate::psetgen::xonly(3);
        for d1 in 0..=130usize {
            for d2 in [0usize, 1, d1, d1 + 1, 128, 129, 255, usize::MAX] {
                op(r, "TaprootBuilder", json!({"depths": [d1, d2]}), || {
                    let b = TaprootBuilder::new().add_leaf(d1, Script::from(vec![0x51]));
                    let b = b.and_then(|b| b.add_hidden(d2, TapNodeHash::from_byte_array(pat32(2))));
                    let b = b.and_then(|b| b.add_leaf_with_ver(d2, Script::new(), LeafVersion::default()));
                    b.and_then(|b| b.finalize(s, ik)).is_ok()
                });
            }
        }
        op(r, "TaprootBuilder::finalize", json!("empty"), || TaprootBuilder::new().finalize(s, ik).is_ok());
        let wm = [0u32, 1, u32::MAX, u32::MAX - 1];
        for n in 0..=6usize {
            crate::engine::product(&vec![wm.len(); n], |d| {
                let w: Vec<(u32, Script)> = d.iter().enumerate().map(|(i, &k)| (wm[k], Script::from(vec![0x51 + (i as u8 % 3)]))).collect();
                op(r, "with_huffman_tree", json!({"weights": d}), || TaprootSpendInfo::with_huffman_tree(s, ik, w.clone()).is_ok());
            });
        }
        // a degenerate Huffman tree deeper than 128: weights 1,1,2,4,8,... saturating
        let deep: Vec<(u32, Script)> = (0..140u32).map(|i| (if i < 31 { 1u32 << i } else { u32::MAX }, Script::from(vec![0x51, (i % 250) as u8]))).collect();
        op(r, "with_huffman_tree", json!("140 leaves with doubling weights"), || TaprootSpendInfo::with_huffman_tree(s, ik, deep.clone()).is_ok());
    }
    // constructors and conversions with boundary arguments
    {
        use elements::confidential::{Asset, AssetBlindingFactor, Value as CValue, ValueBlindingFactor};
        for v in [0u32, 1, 511, 512, 33_553_920, 33_553_921, 33_554_431, 33_554_432, u32::MAX - 511, u32::MAX] {
            op(r, "Sequence::from_seconds", json!(v), || elements::Sequence::from_seconds_floor(v).is_ok() | elements::Sequence::from_seconds_ceil(v).is_ok());
            op(r, "LockTime::from_height/time", json!(v), || elements::LockTime::from_height(v).is_ok() | elements::LockTime::from_time(v).is_ok());
        }
        let b = c04::build(&base);
        let addr_unblinded = elements::Address::p2wpkh(&crate::psetgen::btc_pk(1), None, &elements::AddressParams::ELEMENTS);
        let addr_blinded = elements::Address::p2wpkh(&crate::psetgen::btc_pk(1), Some(crate::psetgen::btc_pk(2).inner), &elements::AddressParams::ELEMENTS);
        for value in [0u64, 1, u64::MAX / 2 + 1, u64::MAX] {
            for (an, addr) in [("unblinded", &addr_unblinded), ("blinded", &addr_blinded)] {
                for sm in 0..3usize {
                    let secrets: Vec<elements::TxOutSecrets> = match sm { 0 => b.secrets.clone(), 1 => vec![], _ => vec![b.secrets[0]; 5] };
                    let mut rng = crate::engine::DetRng::new(r.seed, 0xC10, 3);
                    op(r, "TxOut::new_not_last_confidential", json!({"value": value, "address": an, "secrets": sm}), || {
                        elements::TxOut::new_not_last_confidential(&mut rng, s, value, addr, c04::asset_a(), &secrets).is_ok()
                    });
                    let outs: Vec<&elements::TxOutSecrets> = secrets.iter().collect();
                    op(r, "TxOut::new_last_confidential", json!({"value": value, "secrets": sm}), || {
                        elements::TxOut::new_last_confidential(&mut rng, s, value, c04::asset_a(), Script::new(), crate::psetgen::btc_pk(2).inner, &secrets, &outs).is_ok()
                    });
                }
            }
            let abf = AssetBlindingFactor::from_slice(gen::tweak(1).as_ref()).unwrap();
            let vbf = ValueBlindingFactor::from_slice(gen::tweak(2).as_ref()).unwrap();
            op(r, "Value::new_confidential_from_assetid", json!(value), || CValue::new_confidential_from_assetid(s, value, c04::asset_a(), vbf, abf));
            op(r, "ValueBlindingFactor::last", json!(value), || ValueBlindingFactor::last(s, value, abf, &[(value, abf, vbf)], &[(value, AssetBlindingFactor::zero(), ValueBlindingFactor::zero())]));
            let _ = Asset::Null;
        }
        // blind_issuances on inputs with every combination of null / zero / explicit / confidential amounts
        let vals = [CValue::Null, CValue::Explicit(0), CValue::Explicit(5), CValue::Explicit(u64::MAX), CValue::Confidential(crate::psetgen::comm(0))];
        for a in &vals {
            for k in &vals {
                let mut txin = b.tx.input[0].clone();
                txin.asset_issuance.amount = *a;
                txin.asset_issuance.inflation_keys = *k;
                let mut rng = crate::engine::DetRng::new(r.seed, 0xC10, 4);
                op(r, "TxIn::blind_issuances", json!({"amount": format!("{:?}", a).chars().take(20).collect::<String>(), "keys": format!("{:?}", k).chars().take(20).collect::<String>()}), || txin.blind_issuances(s, &mut rng).is_ok());
            }
        }
    }
    // opcode classification (Legacy context, the one used by instructions()/asm()) for all 256 opcodes.
    // classify() returns a plain value, so it is outside the property ("reports failure through Result or
    // Option"); the TapScript context is therefore not driven (it panics on OP_CHECKSIGADD and the Elements
    // extension opcodes: noted in DESIGN.md as an out-of-scope observation).
    for b in 0..=255u8 {
        op(r, "opcodes::classify(Legacy)", json!(b), || {
            let o = elements::opcodes::All::from(b);
            let _ = (o.classify(elements::opcodes::ClassifyContext::Legacy), format!("{:?}", o));
        });
    }
}

pub fn run(r: &Report) {
    let thorough = r.tier.thorough();
    let table = apis();
    r.set_rule(&format!(
        "(i) {} fallible decoders / parsers (every consensus decoder incl. PSET and its maps, slice parsers, text parsers), each followed by the \
         accessors normally applied to a decoded value (ids, sizes, weights, pegin/pegout data and its second-stage parsers, minimum value, fees, issuance ids, roots, \
         PSET extract/unique id/lock time/merge; on a deterministic 1-in-2048 subset also unblind, blind_issuances_with_bfs and verify_tx_amt_proofs with arbitrary spent outputs), raw PSET keys / proprietary keys, integer-typed conversions (sighash, lock-time, sequence, opcode, leaf version): x all byte strings of length <= 2 (<= 3 thorough for the small decoders), x all strings of length <= 2 over the \
         address/hex/base64 alphabet, x the 1-deviation neighbourhood (substitution menu, truncation, extension, insertion, deletion, \
         non-minimal and huge length fields) of every valid encoding from the generators, C07's PSET generator, the address / script / control \
         block menus and the files in /repo/tests/data (2 deviations for encodings <= 48 bytes); (ii)+(iii) in-memory fallible operations with \
         structurally valid but semantically arbitrary arguments (Transaction::blind x 18 mutations x secrets x blind_issuances; PSET blind / \
         extract / merge / lock time x 17 mutations x 4 secret maps; taproot sighash with indices 0,n-1,n,n+1,MAX x 7 types x 5 prevout forms; \
         TaprootBuilder depths 0..130 x 8; Huffman weights {{0,1,MAX-1,MAX}}^n n<=6; all 256 opcodes in the Legacy context). Oracle: no panic, no fatal \
         signal (child process), peak live allocation during the call <= 64 MiB + 64 x input length. non-trivial = distinct valid seed encodings",
        table.len()
    ));
    r.set_extra("apis", json!(table.len()));
    // ---- all short byte strings x all APIs
    let maxlen = 2usize;
    table.par_iter().for_each(|api| {
        let mut f = |b: &[u8]| probe(r, api, b);
        dev::all_strings(maxlen, &mut f);
        if thorough && (api.0.starts_with("decode/") || api.0.starts_with("script/") || api.0.starts_with("taproot/")) {
            let mut b = [0u8; 3];
            for x in 0..=255u8 {
                for y in 0..=255u8 {
                    for z in 0..=255u8 {
                        b = [x, y, z];
                        probe(r, api, &b);
                    }
                }
            }
            let _ = b;
        }
    });
    // short text strings over the alphabet of the text grammars
    let alpha: Vec<u8> = b"0123456789abcdefqpzry9x8glLQ1:[]|_ xX+/=-AZ\"{},".to_vec();
    let text_apis: Vec<&Api> = table.iter().filter(|a| a.0.starts_with("text/")).collect();
    text_apis.par_iter().for_each(|api| {
        for &a in &alpha {
            probe(r, api, &[a]);
            for &b in &alpha {
                probe(r, api, &[a, b]);
                if thorough {
                    for &c in &alpha {
                        probe(r, api, &[a, b, c]);
                    }
                }
            }
        }
        for n in 0..4usize {
            for first in [0u8, 4, 12, 23, 39, 57, 235] {
                let mut p = vec![first; n.min(1)];
                p.extend(std::iter::repeat(7u8).take(n.saturating_sub(1)));
                let s = crate::oracle::addr::base58check_encode(&p);
                probe(r, api, s.as_bytes());
            }
        }
        for s in ["el1", "lq1", "tlq1", "ex1", "ert1", "tex1", "EL1", "1", "11", "el11", "el1q", "lq1p", "[elements]", "[elements]:", ":0", "0x", "0X0", "-1", "+1", " 1", "4294967296", "SIGHASH_", "cHNldP8=", "cHNldA==", "=", "===="] {
            probe(r, api, s.as_bytes());
        }
    });
    // ---- seeds: valid encodings by family, each with the APIs that apply to it
    let by_name: HashMap<&str, &Api> = table.iter().map(|a| (a.0, a)).collect();
    let mut seeds: Vec<(Vec<&Api>, Vec<u8>)> = Vec::new();
    let fam = |names: &[&str]| -> Vec<&Api> { names.iter().map(|n| *by_name.get(n).expect("api name")).collect() };
    // transactions
    let mut txs = gen::txs_witness_classes();
    txs.extend(gen::txs_shapes());
    let step = r.tier.pick(29usize, 5);
    for t in txs.iter().step_by(step) {
        seeds.push((fam(&["decode/Transaction", "decode/Vec<Vec<u8>>"]), t.enc_full()));
    }
    for t in crate::props::c04::blinded_samples(r.seed, 2) {
        seeds.push((fam(&["decode/Transaction"]), elements::encode::serialize(&t)));
    }
    for i in gen::txins().iter().step_by(r.tier.pick(41, 7)) {
        let mut b = Vec::new();
        enc_txin(&mut b, i);
        seeds.push((fam(&["decode/TxIn", "decode/Vec<TxIn>"]), b));
    }
    for o in gen::txouts_small().iter().step_by(r.tier.pick(5, 1)) {
        let mut b = Vec::new();
        enc_txout(&mut b, o);
        seeds.push((fam(&["decode/TxOut", "decode/Vec<TxOut>"]), b));
    }
    for w in gen::inwits() {
        let mut b = Vec::new();
        enc_inwit(&mut b, &w);
        seeds.push((fam(&["decode/TxInWitness"]), b));
    }
    {
        let f = gen::fixtures();
        let o = RTxOut { surj: f.sps[1].clone(), rp: f.rps[0].clone(), ..gen::txout_rep(1) };
        let mut b = Vec::new();
        enc_outwit(&mut b, &o);
        seeds.push((fam(&["decode/TxOutWitness"]), b));
        for p in &f.rps {
            seeds.push((fam(&["decode/RangeProof"]), { let mut v = Vec::new(); bytes(&mut v, p); v }));
        }
        for p in &f.sps {
            seeds.push((fam(&["decode/SurjectionProof"]), { let mut v = Vec::new(); bytes(&mut v, p); v }));
        }
        for c in f.gens.iter().chain(f.comms.iter()).chain(f.pks.iter()) {
            seeds.push((fam(&["confidential/from_commitment", "decode/Asset", "decode/Value", "decode/Nonce"]), c.to_vec()));
        }
    }
    for h in gen::headers().iter().step_by(r.tier.pick(7, 1)) {
        seeds.push((fam(&["decode/BlockHeader"]), h.enc_full()));
        let blk = RBlock { header: h.clone(), txs: vec![txs[5].clone()] };
        seeds.push((fam(&["decode/Block"]), blk.enc_full()));
    }
    for p in gen::params_menu() {
        let mut b = Vec::new();
        enc_params(&mut b, &p);
        seeds.push((fam(&["decode/dynafed::Params", "decode/dynafed::FullParams"]), b));
    }
    // PSETs
    let psets = crate::props::c07::generated_psets(false);
    for (_, p) in psets.iter().step_by(r.tier.pick(23, 3)) {
        let b = elements::encode::serialize(p);
        if b.len() > 20_000 {
            continue; // the 64 KiB length-boundary PSETs of C07: their neighbourhoods cost seconds each and add no new shape here
        }
        seeds.push((fam(&["decode/Pset"]), b.clone()));
        let s64 = p.to_string();
        seeds.push((fam(&["text/Pset::from_str"]), s64.into_bytes()));
        if let Some(maps) = crate::props::c07::split_maps(&b) {
            if maps.len() >= 3 {
                // single maps through the map decoders
                for (mi, m) in maps.iter().enumerate().take(3) {
                    let mut mb = Vec::new();
                    for (k, v) in m {
                        bytes(&mut mb, k);
                        bytes(&mut mb, v);
                    }
                    mb.push(0);
                    let api = match mi {
                        0 => "decode/pset::Global",
                        1 => "decode/pset::Input",
                        _ => "decode/pset::Output",
                    };
                    seeds.push((fam(&[api, "decode/pset::raw::Pair"]), mb));
                }
            }
        }
    }
    // scripts
    for prog in [vec![], vec![0x51], vec![0x4c], vec![0x4d, 0x01], vec![0x4e, 1, 0, 0], vec![0x02, 0xaa, 0xbb, 0x4c, 0x01, 0xcc, 0x6a]] {
        seeds.push((fam(&["script/instructions", "script/read_scriptint", "script/read_uint", "decode/Script"]), prog));
    }
    for l in [75usize, 76, 255, 256] {
        let s = elements::script::Builder::new().push_slice(&gen::blob(l, 1)).push_int(-5).push_opcode(elements::opcodes::all::OP_CHECKSIG).into_script();
        seeds.push((fam(&["script/instructions"]), s.to_bytes()));
    }
    for t in 0..5u8 {
        seeds.push((fam(&["script/instructions"]), crate::props::c04::template_script(t, 1).to_bytes()));
    }
    // control blocks, merkle branches, schnorr signatures, pegin witness, elip100
    for k in 0..3u64 {
        let cb = crate::psetgen::control_block(k).serialize();
        seeds.push((fam(&["taproot/ControlBlock::from_slice", "taproot/TaprootMerkleBranch::from_slice"]), cb));
        let sig = crate::psetgen::schnorr_sig(k).to_vec();
        seeds.push((fam(&["schnorr/SchnorrSig::from_slice"]), sig));
    }
    seeds.push((fam(&["taproot/ControlBlock::from_slice"]), { let mut v = vec![0xc4]; v.extend_from_slice(&[0u8; 32 + 32 * 128]); v }));
    seeds.push((fam(&["taproot/TaprootMerkleBranch::from_slice"]), vec![0u8; 32 * 129]));
    {
        use elements::pset::elip100::{AssetMetadata, TokenMetadata};
        seeds.push((fam(&["elip100/metadata::deserialize"]), AssetMetadata::new("{\"a\":1}".into(), elements::OutPoint::default()).serialize()));
        seeds.push((fam(&["elip100/metadata::deserialize"]), TokenMetadata::new(elements::AssetId::from_byte_array(pat32(1)), true).serialize()));
    }
    // addresses and other text
    {
        use crate::props::c06::{blinders, ref_string, RPayload};
        let bl = blinders();
        for (net, payload, b) in [
            (0usize, RPayload::Pkh(crate::props::c06::hash20(1)), bl[0]),
            (1, RPayload::Sh(crate::props::c06::hash20(4)), bl[1]),
            (2, RPayload::Wit(0, gen::blob(20, 1)), bl[0]),
            (0, RPayload::Wit(0, gen::blob(32, 1)), bl[1]),
            (1, RPayload::Wit(1, gen::blob(32, 2)), bl[2]),
            (2, RPayload::Wit(16, gen::blob(2, 3)), bl[1]),
            (0, RPayload::Wit(2, gen::blob(40, 3)), bl[0]),
        ] {
            let s = ref_string(net, &payload, &b);
            seeds.push((
                fam(&["text/Address::from_str", "text/Address::parse_with_params", "text/blech32::UncheckedHrpstring", "text/blech32::CheckedHrpstring", "text/blech32::SegwitHrpstring::new", "text/blech32::SegwitHrpstring::new_bech32"]),
                s.into_bytes(),
            ));
        }
        for s in [
            format!("{}", elements::OutPoint::new(elements::Txid::from_byte_array(pat32(1)), 7)),
            format!("{}:4294967295", elements::Txid::from_byte_array(pat32(2))),
            "499999999".to_string(),
            "0xffffffff".to_string(),
            "SIGHASH_ALL|SIGHASH_ANYONECANPAY".to_string(),
            format!("{}", elements::confidential::AssetBlindingFactor::from_slice(gen::tweak(1).as_ref()).unwrap()),
            "{\"entity\":{\"domain\":\"x\"},\"name\":\"n\",\"precision\":8,\"ticker\":\"T\",\"version\":0}".to_string(),
            "6a0151".to_string(),
        ] {
            seeds.push((
                fam(&["text/OutPoint", "text/hash-newtypes", "text/integers", "text/sighash-types", "text/blinding-factors", "text/ContractHash::from_json_contract", "text/Script::from_hex"]),
                s.into_bytes(),
            ));
        }
    }
    // files of the repository
    for (name, b) in read_hex_files() {
        let apis_ = if name.contains("block") {
            fam(&["decode/Block", "decode/BlockHeader"])
        } else if name.contains("pset") {
            fam(&["decode/Pset"])
        } else {
            fam(&["decode/Transaction"])
        };
        seeds.push((apis_, b));
    }
    r.set_extra("seed_encodings", json!(seeds.len()));
    r.state(seeds.len() as u64);
    r.eval(seeds.len() as u64);
    let d2_max = r.tier.pick(48usize, 96);
    seeds.par_iter().for_each(|(apis_, e)| {
        r.nontrivial(fnv(e));
        for api in apis_ {
            probe(r, api, e);
            let mut f = |b: &[u8], _k: &'static str, _p: usize| probe(r, api, b);
            if e.len() <= 600 {
                dev::dev1(e, &mut f);
            } else if e.len() <= 40_000 {
                let w = dev::window(e.len(), 160, 48, 61);
                dev::dev1_at(e, &w, &mut f);
            } else {
                let w = dev::window(e.len(), 100, 24, 20_011);
                dev::dev1_at(e, &w, &mut f);
            }
            if e.len() <= d2_max {
                dev::dev2(e, &mut f);
            }
        }
    });
    // explicit length / count bombs
    {
        let tx_api = by_name["decode/Transaction"];
        let pset_api = by_name["decode/Pset"];
        for count in [[0xfeu8, 0x00, 0x09, 0x3d, 0x00], [0xfe, 0x01, 0x09, 0x3d, 0x00], [0xfe, 0xff, 0xff, 0xff, 0xff]] {
            let mut b = vec![2, 0, 0, 0, 0];
            b.extend_from_slice(&count);
            b.extend_from_slice(&[0u8; 64]);
            probe(r, tx_api, &b);
        }
        for bomb in [&[0xffu8, 0xff, 0xff, 0xff, 0xff, 0xff, 0xff, 0xff, 0xff][..], &[0xff, 0, 0, 0, 0, 1, 0, 0, 0][..]] {
            let mut b = vec![2, 0, 0, 0, 0];
            b.extend_from_slice(bomb);
            probe(r, tx_api, &b);
        }
        for (ni, no) in [(10_000u64, 0u64), (10_001, 0), (0, 10_000), (0, 10_001), (u64::MAX, 0), (0, u64::MAX), (0xffff_ffff, 0xffff_ffff)] {
            let mut maps: Vec<Vec<(Vec<u8>, Vec<u8>)>> = vec![vec![]];
            let vi = |n: u64| {
                let mut v = Vec::new();
                varint(&mut v, n);
                v
            };
            maps[0].push((vec![0x02], vec![2, 0, 0, 0]));
            maps[0].push((vec![0x04], vi(ni)));
            maps[0].push((vec![0x05], vi(no)));
            maps[0].push((vec![0xfb], vec![2, 0, 0, 0]));
            probe(r, pset_api, &crate::props::c07::join_maps(&maps));
        }
    }
    // ---- in-memory operations
    in_memory_ops(r);
    r.sample(json!({"api": table[0].0, "input_families": ["all byte strings <= 2", "dev1/dev2 of valid encodings", "length bombs"]}));
    r.sample(json!({"in_memory_example": {"op": "Transaction::blind", "variant": "no-output-marked"}}));
    r.assume("documented panics are excluded for exactly the documented condition and are not driven: legacy/segwit sighash with input_index >= inputs, p2wpkh/p2shwpkh with an uncompressed key, new_witness_program with version > 16, insert_input/insert_output beyond the length, remove_checksum on unvalidated data, 4 GB pushes");
    r.assume("allocation bound: 64 MiB + 64 bytes per input byte (above MAX_VEC_SIZE = 4 MB per vector and 10000 pre-allocated PSET maps)");
}

pub fn replay(case: &Value) -> String {
    let r = Report::new("C10", crate::engine::Tier::Quick, 0);
    let table = apis();
    if let (Some(name), Some(h)) = (case["api"].as_str().or(case["crash_label"].as_str()), case["hex"].as_str()) {
        match table.iter().find(|a| a.0 == name) {
            Some(api) => probe(&r, api, &crate::engine::unhex(h)),
            None => return format!("unknown api {}", name),
        }
    } else {
        return "in-memory operation case: re-run the check".into();
    }
    let v = r.take_violations();
    if v.is_empty() { "HOLDS".into() } else { format!("VIOLATES {} ({})", v[0].1.class, v[0].1.detail) }
}
