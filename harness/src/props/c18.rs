//! C18 — fast_merkle_root is the definitional midstate merkle tree for every leaf count.
//! Enumerated: every leaf count 0..=N x leaf-content menu; sensitivity to every leaf and to every
//! adjacent swap. Oracle: level-by-level tree over the harness's own SHA-256 compression function.

use crate::engine::{guard, hex, unhex, Report};
use crate::oracle::{merkle, sha256::sha256};
use elements::fast_merkle_root;
use rayon::prelude::*;
use serde_json::{json, Value};

fn leaves(menu: usize, n: usize) -> Vec<[u8; 32]> {
    (0..n)
        .map(|i| match menu {
            0 => sha256(&(i as u64).to_le_bytes()),
            1 => [0x42u8; 32],
            2 => [0u8; 32],
            3 => {
                let mut a = [0u8; 32];
                a[31] = (i & 0xff) as u8;
                a[30] = (i >> 8) as u8;
                a
            }
            _ => {
                // pairs of equal leaves: (x,x,y,y,...) — exercises the "duplicate" confusion of CVE-2012-2459 style rules
                sha256(&((i / 2) as u64).to_le_bytes())
            }
        })
        .collect()
}

fn lib_root(l: &[[u8; 32]]) -> Result<[u8; 32], String> {
    guard(|| fast_merkle_root(l).to_parts().0)
}

fn check_one(r: &Report, menu: usize, n: usize, sens: bool) {
    let l = leaves(menu, n);
    let exp = merkle::fast_root(&l);
    r.eval(1);
    r.state(1);
    r.trace(1);
    let case = json!({"menu": menu, "n": n});
    match lib_root(&l) {
        Err(p) => r.violation(format!("panic/n={}", n), case.clone(), p),
        Ok(got) => {
            if got != exp {
                r.violation(
                    format!("root-mismatch/n={}", n.min(40)),
                    case.clone(),
                    format!("n={} menu={} lib={} ref={}", n, menu, hex(&got), hex(&exp)),
                );
            }
            if n >= 2 {
                r.nontrivial(((menu as u64) << 32) | n as u64);
            }
            if r.sample_room() && n == 5 {
                r.sample(json!({"n": n, "menu": menu, "root": hex(&got)}));
            }
            if sens && menu == 0 {
                // single-bit flip of every leaf, and swap of every adjacent pair, must change the root
                for i in 0..n {
                    let mut m = l.clone();
                    m[i][(i * 5) % 32] ^= 1 << (i % 8);
                    r.trans(1);
                    let g2 = lib_root(&m).unwrap_or([0xEE; 32]);
                    if g2 == got {
                        r.violation("insensitive-to-leaf", json!({"menu":menu,"n":n,"flip":i}), format!("n={} leaf {} flipped, same root", n, i));
                    }
                    if g2 != merkle::fast_root(&m) {
                        r.violation(format!("root-mismatch/n={}", n.min(40)), json!({"menu":menu,"n":n,"flip":i}), "after flip");
                    }
                    if i + 1 < n {
                        let mut m = l.clone();
                        m.swap(i, i + 1);
                        r.trans(1);
                        let g3 = lib_root(&m).unwrap_or([0xEE; 32]);
                        if g3 == got {
                            r.violation("insensitive-to-order", json!({"menu":menu,"n":n,"swap":i}), format!("n={} swap {},{} same root", n, i, i + 1));
                        }
                    }
                }
            } else {
                r.trans(1);
            }
        }
    }
}

pub fn run(r: &Report) {
    match merkle::selftest() {
        Ok(n) => r.set_extra("oracle_selftest_vectors", json!(n)),
        Err(e) => return r.machinery(e),
    }
    let max_n = r.tier.pick(260usize, 2100);
    let sens_n = r.tier.pick(130usize, 520);
    r.set_rule(&format!(
        "every leaf count 0..={} x 5 leaf-content menus (distinct, all-equal, all-zero, counter, equal-pairs); \
         for counts <= {} every single-leaf bit flip and every adjacent swap; plus counts 4097, 65537; plus single-thread call histories (ascending / descending counts, list then each prefix, list then zero-extended list, last leaf zeroed). \
         non-trivial = (menu, n) with n >= 2",
        max_n, sens_n
    ));
    let cases: Vec<(usize, usize)> = (0..=max_n).flat_map(|n| (0..5).map(move |m| (m, n))).collect();
    cases.par_iter().for_each(|&(m, n)| check_one(r, m, n, n <= sens_n));
    for n in [4097usize, 65537] {
        check_one(r, 0, n, false);
    }
    // histories on ONE thread (the function is pure; a memo of an earlier call must never leak into a later answer):
    // every count 0..=40 ascending then descending per menu, and for every list L of 1..=12 leaves: root(L), then every
    // proper prefix of L, L followed by 1..3 all-zero leaves, L with its last leaf zeroed, and L again
    {
        let mut n_hist = 0u64;
        let mut ask = |l: &[[u8; 32]], what: &str| {
            n_hist += 1;
            r.trans(1);
            let exp = merkle::fast_root(l);
            match lib_root(l) {
                Ok(g) if g == exp => {}
                Ok(g) => r.violation(format!("history/root-mismatch/{}", what), json!({"history": what, "n": l.len()}), format!("n={} lib={} ref={}", l.len(), hex(&g), hex(&exp))),
                Err(p) => r.violation("history/panic", json!({"history": what, "n": l.len()}), p),
            }
        };
        for menu in 0..5 {
            for n in (0..=40usize).chain((0..=40).rev()) {
                ask(&leaves(menu, n), "ascending-then-descending");
            }
            for n in 1..=12usize {
                let l = leaves(menu, n);
                ask(&l, "list");
                for k in (0..n).rev() {
                    ask(&l[..k], "prefix-after-list");
                    ask(&l, "list-after-prefix");
                }
                for z in 1..=3usize {
                    let mut m = l.clone();
                    m.extend(std::iter::repeat([0u8; 32]).take(z));
                    ask(&m, "list-plus-zero-leaves");
                    ask(&l, "list-after-extension");
                }
                let mut m = l.clone();
                m[n - 1] = [0u8; 32];
                ask(&m, "last-leaf-zeroed");
                ask(&l, "list-again");
            }
        }
        r.set_extra("sequential_history_calls", json!(n_hist));
    }
    if r.tier.thorough() {
        for n in [(1usize << 20) - 1, 1 << 20, (1 << 20) + 1] {
            check_one(r, 3, n, false);
        }
    }
    r.set_extra("max_leaf_count_exhaustive", json!(max_n));
    r.assume("leaf contents are drawn from a 5-pattern menu; SHA-256 is treated as collision-free for the sensitivity oracle");
}

pub fn replay(case: &Value) -> String {
    let menu = case["menu"].as_u64().unwrap_or(0) as usize;
    let n = case["n"].as_u64().unwrap_or(0) as usize;
    let mut l = leaves(menu, n);
    if let Some(i) = case["flip"].as_u64() {
        let i = i as usize;
        l[i][(i * 5) % 32] ^= 1 << (i % 8);
    }
    let _ = unhex;
    let exp = merkle::fast_root(&l);
    match lib_root(&l) {
        Ok(g) if g == exp => format!("HOLDS n={} root={}", n, hex(&g)),
        Ok(g) => format!("VIOLATES n={} lib={} ref={}", n, hex(&g), hex(&exp)),
        Err(p) => format!("VIOLATES panic {}", p),
    }
}
