//! C05 — amount verification rejects every tampered or unbalanced transaction.
//! (a) every verifying transaction of a C04 sub-grid (+ the repository's real-network vector) x every
//! tamper class at every applicable position => Err; (b) complete all-explicit arithmetic model
//! against the reference predicate; (c) exact-value / exact-asset proofs.

use crate::engine::{fnv, guard, hex, DetRng, Report};
use crate::gen::{self, pat32, secp};
use crate::props::c04::{self, template_script, OutKind, Scenario};
use elements::confidential::{Asset, AssetBlindingFactor, Nonce, Value as CValue, ValueBlindingFactor};
use elements::secp256k1_zkp as zkp;
use elements::{AssetId, AssetIssuance, BlindAssetProofs, BlindValueProofs, LockTime, OutPoint, Script, Sequence, Transaction, TxIn, TxInWitness, TxOut, TxOutWitness, Txid, VerificationError};
use rayon::prelude::*;
use serde_json::{json, Value};

fn verify(tx: &Transaction, spent: &[TxOut]) -> Result<Result<(), VerificationError>, String> {
    guard(|| tx.verify_tx_amt_proofs(secp(), spent))
}

fn other_commitment(c: &zkp::PedersenCommitment) -> zkp::PedersenCommitment {
    let f = gen::fixtures();
    let a = zkp::PedersenCommitment::from_slice(&f.comms[0]).unwrap();
    if *c == a { zkp::PedersenCommitment::from_slice(&f.comms[1]).unwrap() } else { a }
}
fn other_generator(c: &zkp::Generator) -> zkp::Generator {
    let f = gen::fixtures();
    let a = zkp::Generator::from_slice(&f.gens[0]).unwrap();
    if *c == a { zkp::Generator::from_slice(&f.gens[1]).unwrap() } else { a }
}

/// every single-location tamper of (tx, spent); returns (class, tampered tx, tampered spent)
fn tampers(tx: &Transaction, spent: &[TxOut], stride: usize) -> Vec<(String, Transaction, Vec<TxOut>)> {
    let mut out: Vec<(String, Transaction, Vec<TxOut>)> = Vec::new();
    let mut push = |name: String, t: Transaction, s: Vec<TxOut>| out.push((name, t, s));
    for (j, o) in tx.output.iter().enumerate() {
        let kind = if o.is_fee() { "fee" } else if o.value.is_confidential() { "blinded" } else { "explicit" };
        if let CValue::Explicit(v) = o.value {
            for d in [1i64, -1] {
                if v as i64 + d >= 0 {
                    let mut t = tx.clone();
                    t.output[j].value = CValue::Explicit((v as i64 + d) as u64);
                    push(format!("output-amount{:+}/{}", d, kind), t, spent.to_vec());
                }
            }
        }
        if let Asset::Explicit(a) = o.asset {
            let mut t = tx.clone();
            t.output[j].asset = Asset::Explicit(if a == c04::asset_a() { c04::asset_b() } else { c04::asset_a() });
            push(format!("output-asset-swapped/{}", kind), t, spent.to_vec());
        }
        if let CValue::Confidential(c) = o.value {
            let mut t = tx.clone();
            t.output[j].value = CValue::Confidential(other_commitment(&c));
            push("value-commitment-replaced".into(), t, spent.to_vec());
            for (k, o2) in tx.output.iter().enumerate() {
                if k != j {
                    if let CValue::Confidential(c2) = o2.value {
                        if c2 != c {
                            let mut t = tx.clone();
                            t.output[j].value = CValue::Confidential(c2);
                            push("value-commitment-from-other-output".into(), t, spent.to_vec());
                        }
                    }
                }
            }
            // explicit <-> confidential form of the same output
            let mut t = tx.clone();
            t.output[j].value = CValue::Explicit(1);
            push("value-commitment-made-explicit".into(), t, spent.to_vec());
        }
        if let Asset::Confidential(g) = o.asset {
            let mut t = tx.clone();
            t.output[j].asset = Asset::Confidential(other_generator(&g));
            push("asset-commitment-replaced".into(), t, spent.to_vec());
            for (k, o2) in tx.output.iter().enumerate() {
                if k != j {
                    if let Asset::Confidential(g2) = o2.asset {
                        if g2 != g {
                            let mut t = tx.clone();
                            t.output[j].asset = Asset::Confidential(g2);
                            push("asset-commitment-from-other-output".into(), t, spent.to_vec());
                        }
                    }
                }
            }
        }
        if let Some(rp) = &o.witness.rangeproof {
            let mut t = tx.clone();
            t.output[j].witness.rangeproof = None;
            push("rangeproof-removed".into(), t, spent.to_vec());
            for (k, o2) in tx.output.iter().enumerate() {
                if k != j {
                    if let Some(rp2) = &o2.witness.rangeproof {
                        let mut t = tx.clone();
                        t.output[j].witness.rangeproof = Some(rp2.clone());
                        push("rangeproof-from-other-output".into(), t, spent.to_vec());
                    }
                }
            }
            let b = rp.serialize();
            for cut in [b.len() - 1, b.len() - 32, b.len() / 2, 100] {
                if let Ok(p) = zkp::RangeProof::from_slice(&b[..cut.min(b.len())]) {
                    let mut t = tx.clone();
                    t.output[j].witness.rangeproof = Some(Box::new(p));
                    push("rangeproof-truncated".into(), t, spent.to_vec());
                }
            }
            let mut pos = 0usize;
            while pos < b.len() {
                let mut m = b.clone();
                m[pos] ^= 1 << (pos % 8);
                if let Ok(p) = zkp::RangeProof::from_slice(&m) {
                    let mut t = tx.clone();
                    t.output[j].witness.rangeproof = Some(Box::new(p));
                    push("rangeproof-bit-flipped".into(), t, spent.to_vec());
                }
                pos += stride;
            }
            // script of a blinded output changed (the range proof commits to it)
            let mut t = tx.clone();
            let mut s = o.script_pubkey.to_bytes();
            if s.is_empty() {
                s.push(0x6a);
            } else {
                let l = s.len() - 1;
                s[l] ^= 1;
            }
            t.output[j].script_pubkey = Script::from(s);
            push("blinded-output-script-changed".into(), t, spent.to_vec());
        }
        if let Some(sp) = &o.witness.surjection_proof {
            let mut t = tx.clone();
            t.output[j].witness.surjection_proof = None;
            push("surjectionproof-removed".into(), t, spent.to_vec());
            for (k, o2) in tx.output.iter().enumerate() {
                if k != j {
                    if let Some(sp2) = &o2.witness.surjection_proof {
                        // a proof for the SAME asset generator is a valid proof for this output too: not a tamper
                        if sp2 != sp && o2.asset != o.asset {
                            let mut t = tx.clone();
                            t.output[j].witness.surjection_proof = Some(sp2.clone());
                            push("surjectionproof-from-other-output".into(), t, spent.to_vec());
                        }
                    }
                }
            }
            let b = sp.serialize();
            for pos in 0..b.len() {
                if pos % (stride / 4).max(1) != 0 && pos > 4 {
                    continue;
                }
                let mut m = b.clone();
                m[pos] ^= 1 << (pos % 8);
                if let Ok(p) = zkp::SurjectionProof::from_slice(&m) {
                    if p != **sp {
                        let mut t = tx.clone();
                        t.output[j].witness.surjection_proof = Some(Box::new(p));
                        push("surjectionproof-bit-flipped".into(), t, spent.to_vec());
                    }
                }
            }
        }
    }
    for (i, inp) in tx.input.iter().enumerate() {
        if inp.has_issuance() {
            if let CValue::Explicit(v) = inp.asset_issuance.amount {
                for d in [1i64, -1] {
                    let mut t = tx.clone();
                    t.input[i].asset_issuance.amount = CValue::Explicit((v as i64 + d) as u64);
                    push(format!("issuance-amount{:+}", d), t, spent.to_vec());
                }
                let mut t = tx.clone();
                t.input[i].asset_issuance.amount = CValue::Null;
                if t.input[i].has_issuance() {
                    push("issuance-amount-removed".into(), t, spent.to_vec());
                }
            }
            if let CValue::Explicit(v) = inp.asset_issuance.inflation_keys {
                let mut t = tx.clone();
                t.input[i].asset_issuance.inflation_keys = CValue::Explicit(v + 1);
                push("issuance-tokens+1".into(), t, spent.to_vec());
            }
            // a different contract hash issues a different asset: visible to amount verification whenever an issuance amount
            // is explicit (its asset id enters the balance). A fully blinded issuance amount is a bare commitment whose
            // generator the verifier never re-derives (issuance range proofs are not part of verify_tx_amt_proofs), and the
            // statement's tamper list does not include the entropy: not demanded there.
            if inp.asset_issuance.amount.is_explicit() || inp.asset_issuance.inflation_keys.is_explicit() {
                let mut t = tx.clone();
                t.input[i].asset_issuance.asset_entropy[0] ^= 1;
                push("issuance-entropy-changed".into(), t, spent.to_vec());
            }
        }
    }
    let has_surjection = tx.output.iter().any(|o| o.asset.is_confidential());
    for (i, s) in spent.iter().enumerate() {
        let mut sp = spent.to_vec();
        match s.value {
            CValue::Explicit(v) => sp[i].value = CValue::Explicit(v + 1),
            CValue::Confidential(c) => sp[i].value = CValue::Confidential(other_commitment(&c)),
            CValue::Null => {}
        }
        push(format!("spent-output-value-changed/{}", if s.value.is_explicit() { "explicit" } else { "confidential" }), tx.clone(), sp);
        let mut sp = spent.to_vec();
        match s.asset {
            Asset::Explicit(a) => sp[i].asset = Asset::Explicit(if a == c04::asset_a() { c04::asset_b() } else { c04::asset_a() }),
            Asset::Confidential(g) => sp[i].asset = Asset::Confidential(other_generator(&g)),
            Asset::Null => {}
        }
        if s.asset.is_confidential() && s.value.is_confidential() && !has_surjection {
            // The generator of a fully confidential spent output enters the verification only through the
            // surjection-proof domain; a transaction without any confidential-asset output does not bind it
            // (its value commitment is used as is). Not a tamper the verifier can or needs to see.
            continue;
        }
        push(format!("spent-output-asset-changed/{}", if s.asset.is_explicit() { "explicit" } else { "confidential" }), tx.clone(), sp);
    }
    out
}

fn check_tampers(r: &Report, label: &str, tx: &Transaction, spent: &[TxOut], stride: usize) {
    r.eval(1);
    r.state(1);
    let enc = elements::encode::serialize(tx);
    match verify(tx, spent) {
        Ok(Ok(())) => {}
        other => {
            r.violation(format!("base-does-not-verify/{}", label), json!({"tx": hex(&enc)}), format!("{:?}", other));
            return;
        }
    }
    r.nontrivial(fnv(&enc));
    let ts = tampers(tx, spent, stride);
    for (class, t, s) in ts {
        r.trans(1);
        let case = || json!({"tamper": class, "tx": hex(&elements::encode::serialize(&t)), "spent": s.iter().map(|o| hex(&elements::encode::serialize(o))).collect::<Vec<_>>()});
        match verify(&t, &s) {
            Err(p) => r.violation(format!("tamper/panic/{}", class), case(), p),
            Ok(Ok(())) => {
                r.acc(true);
                r.violation(format!("tamper-accepted/{}", class), case(), format!("verification still succeeds after: {}", class));
            }
            Ok(Err(_)) => {
                r.acc(false);
                r.outcome(&class);
            }
        }
    }
    // wrong-length spent lists
    for (what, s) in [("shorter", spent[..spent.len() - 1].to_vec()), ("longer", { let mut v = spent.to_vec(); v.push(spent[0].clone()); v })] {
        r.trans(1);
        match verify(tx, &s) {
            Ok(Err(VerificationError::UtxoInputLenMismatch)) => {}
            other => r.violation(format!("utxo-list-{}-not-reported-as-length-mismatch", what), json!({"tx": hex(&enc)}), format!("{:?}", other)),
        }
    }
}

// ------------------------------------------------------------------------------------------------
// (b) all-explicit arithmetic model

#[derive(Clone, Debug, serde::Serialize, serde::Deserialize)]
pub struct Explicit {
    /// the issuance on input 0 is a reissuance (non-zero blinding nonce; asset id from the entropy)
    #[serde(default)]
    pub reissue: bool,
    /// (asset 0/1, value) per input
    pub ins: Vec<(u8, u64)>,
    /// issuance on input 0: (amount, tokens), 0 = null
    pub iss: (u64, u64),
    /// (asset 0=A,1=B,2=issued,3=token; value; script 0=spendable,1=OP_RETURN,2=empty,3=10000 bytes,4=10001 bytes,5=9999 bytes)
    pub outs: Vec<(u8, u64, u8)>,
}

fn build_explicit(m: &Explicit) -> (Transaction, Vec<TxOut>) {
    let ins: Vec<TxIn> = m
        .ins
        .iter()
        .enumerate()
        .map(|(i, _)| TxIn {
            previous_output: OutPoint::new(Txid::from_byte_array(pat32(4 + i)), i as u32),
            is_pegin: false,
            script_sig: Script::new(),
            sequence: Sequence::MAX,
            asset_issuance: if i == 0 && (m.iss.0 != 0 || m.iss.1 != 0) {
                AssetIssuance {
                    asset_blinding_nonce: if m.reissue { gen::tweak(7900) } else { zkp::ZERO_TWEAK },
                    asset_entropy: pat32(5),
                    amount: if m.iss.0 == 0 { CValue::Null } else { CValue::Explicit(m.iss.0) },
                    inflation_keys: if m.iss.1 == 0 { CValue::Null } else { CValue::Explicit(m.iss.1) },
                }
            } else {
                AssetIssuance::default()
            },
            witness: TxInWitness::default(),
        })
        .collect();
    let (issued, token) = if ins[0].has_issuance() {
        let (a, t) = crate::props::c11::ref_ids(&crate::oracle::model::from_txin(&ins[0]));
        (AssetId::from_byte_array(a), AssetId::from_byte_array(t))
    } else {
        ins[0].issuance_ids()
    };
    let aid = |a: u8| match a {
        0 => c04::asset_a(),
        1 => c04::asset_b(),
        2 => issued,
        _ => token,
    };
    let outs: Vec<TxOut> = m
        .outs
        .iter()
        .enumerate()
        .map(|(j, (a, v, s))| TxOut {
            asset: Asset::Explicit(aid(*a)),
            value: CValue::Explicit(*v),
            nonce: Nonce::Null,
            script_pubkey: match s {
                0 => template_script(2, j as u8),
                1 => Script::from(vec![0x6a, 0x01, j as u8]),
                2 => Script::new(),
                // around the maximum script size (consensus: larger than 10 000 bytes = provably unspendable)
                3 => Script::from(vec![0x51; 10_000]),
                4 => Script::from(vec![0x51; 10_001]),
                _ => Script::from(vec![0x51; 9_999]),
            },
            witness: TxOutWitness::default(),
        })
        .collect();
    let spent: Vec<TxOut> = m
        .ins
        .iter()
        .enumerate()
        .map(|(i, (a, v))| TxOut { asset: Asset::Explicit(aid(*a)), value: CValue::Explicit(*v), nonce: Nonce::Null, script_pubkey: template_script(2, 200 + i as u8), witness: TxOutWitness::default() })
        .collect();
    (Transaction { version: 2, lock_time: LockTime::ZERO, input: ins, output: outs }, spent)
}

/// reference predicate from the statement
fn reference_ok(m: &Explicit) -> bool {
    let mut bal = [0i128; 4];
    for (a, v) in &m.ins {
        bal[*a as usize] += *v as i128;
    }
    bal[2] += m.iss.0 as i128;
    bal[3] += m.iss.1 as i128;
    for (a, v, s) in &m.outs {
        if *v == 0 {
            // provably unspendable: OP_RETURN first, empty (fee), or longer than the maximum script size of 10 000 bytes
            if !matches!(*s, 1 | 2 | 4) {
                return false; // zero value on a (possibly) spendable script
            }
            continue; // admissible, ignored
        }
        bal[*a as usize] -= *v as i128;
    }
    bal.iter().all(|&b| b == 0)
}

fn check_explicit(r: &Report, m: &Explicit) {
    r.eval(1);
    r.state(1);
    r.trans(1);
    let (tx, spent) = build_explicit(m);
    let exp = reference_ok(m);
    let case = || serde_json::to_value(m).unwrap();
    let zero_kind = || {
        let z: Vec<&str> = m.outs.iter().filter(|o| o.1 == 0).map(|o| ["spendable", "op_return", "empty-script", "10000-byte-script", "10001-byte-script", "9999-byte-script"][o.2 as usize % 6]).collect();
        if z.is_empty() { "no-zero-outputs".to_string() } else { format!("zero-value-on-{}", z.join("+")) }
    };
    match verify(&tx, &spent) {
        Err(p) => r.violation(format!("explicit/panic@{}", crate::engine::panic_site(&p)), case(), p),
        Ok(res) => {
            r.trace(1);
            r.acc(res.is_ok());
            if res.is_ok() != exp {
                if exp {
                    r.violation(format!("explicit/balanced-rejected/{}", zero_kind()), case(), format!("per-asset sums balance but verification says {:?}", res));
                } else {
                    r.violation(format!("explicit/unbalanced-accepted/{}", zero_kind()), case(), "verification succeeds although the per-asset sums do not balance (or a zero value sits on a spendable script)");
                }
            }
            if exp {
                r.nontrivial(fnv(format!("{:?}", m).as_bytes()));
            }
        }
    }
}

fn explicit_models(thorough: bool) -> Vec<Explicit> {
    let mut out = Vec::new();
    let in_vals: &[u64] = if thorough { &[1, 2, 3] } else { &[1, 2] };
    let isss: Vec<(u64, u64)> = if thorough { vec![(0, 0), (1, 0), (2, 0), (0, 1), (1, 1), (2, 1), (1, 2), (2, 2)] } else { vec![(0, 0), (1, 0), (2, 1), (0, 1)] };
    let mut in_sets: Vec<Vec<(u8, u64)>> = Vec::new();
    for a in 0..2u8 {
        for &v in in_vals {
            in_sets.push(vec![(a, v)]);
            for b in 0..2u8 {
                for &w in in_vals {
                    in_sets.push(vec![(a, v), (b, w)]);
                }
            }
        }
    }
    // single outputs alphabet
    let mut single: Vec<(u8, u64, u8)> = Vec::new();
    for a in 0..4u8 {
        for v in 0..4u64 {
            for s in 0..3u8 {
                single.push((a, v, s));
            }
        }
    }
    for ins in &in_sets {
        for iss in &isss {
            let assets_ok = |o: &(u8, u64, u8)| (o.0 < 2) || (o.0 == 2 && iss.0 > 0) || (o.0 == 3 && iss.1 > 0);
            let sing: Vec<&(u8, u64, u8)> = single.iter().filter(|o| assets_ok(o)).collect();
            for reissue in [false, true] {
                if reissue && *iss == (0, 0) {
                    continue;
                }
            out.push(Explicit { reissue, ins: ins.clone(), iss: *iss, outs: vec![] });
            for a in &sing {
                out.push(Explicit { reissue, ins: ins.clone(), iss: *iss, outs: vec![**a] });
                for b in &sing {
                    out.push(Explicit { reissue, ins: ins.clone(), iss: *iss, outs: vec![**a, **b] });
                    if thorough || (a.2 != 0 && b.1 > 0 && ins.len() == 1 && b.2 == 0) {
                        // three outputs: third is a fee-like (empty script) or OP_RETURN output
                        for c in sing.iter().filter(|c| c.2 != 0 && c.1 <= 2) {
                            out.push(Explicit { reissue, ins: ins.clone(), iss: *iss, outs: vec![**a, **b, **c] });
                        }
                    }
                }
            }
            }
        }
    }
    // scripts around the maximum script size: zero and non-zero values on 9 999 / 10 000 / 10 001-byte scripts, alone and
    // next to a balancing ordinary output
    for s in 3..6u8 {
        for v in 0..2u64 {
            out.push(Explicit { reissue: false, ins: vec![(0, 2)], iss: (0, 0), outs: vec![(0, v, s), (0, 2 - v, 0)] });
            out.push(Explicit { reissue: false, ins: vec![(0, 2)], iss: (0, 0), outs: vec![(0, 2, 2), (0, v, s)] });
            out.push(Explicit { reissue: false, ins: vec![(1, 1), (0, 1)], iss: (1, 0), outs: vec![(1, 1, 0), (2, 1, 1), (0, 1 - v, 0), (0, v, s)] });
        }
    }
    out
}

fn exact_proofs(r: &Report) {
    let s = secp();
    for k in 0..r.tier.pick(6u64, 24) {
        r.eval(1);
        r.state(1);
        r.trans(8);
        let mut rng = DetRng::new(r.seed, 0xC05, k);
        let asset = AssetId::from_byte_array(pat32(k as usize));
        let other_asset = AssetId::from_byte_array(pat32(k as usize + 1));
        let abf = AssetBlindingFactor::from_slice(gen::tweak(7000 + k).as_ref()).unwrap();
        let vbf = ValueBlindingFactor::from_slice(gen::tweak(7100 + k).as_ref()).unwrap();
        let value = [1u64, 2, 1000, (1 << 32) + 1, (1 << 52) + 1, (1 << 62)][k as usize % 6];
        let gen_ = zkp::Generator::new_blinded(s, asset.into_tag(), abf.into_inner());
        let comm = zkp::PedersenCommitment::new(s, value, vbf.into_inner(), gen_);
        let case = json!({"value": value, "k": k});
        let vp = match guard(|| zkp::RangeProof::blind_value_proof(&mut rng, s, value, comm, gen_, vbf)) {
            Ok(Ok(p)) => p,
            other => {
                r.violation("exact-value-proof/cannot-create", case.clone(), format!("{:?}", other.map(|x| x.map(|_| ()))));
                continue;
            }
        };
        let ok = vp.blind_value_proof_verify(s, value, gen_, comm);
        if !ok {
            r.violation("exact-value-proof/genuine-rejected", case.clone(), "blind_value_proof_verify false on the genuine tuple");
        }
        let other_gen = zkp::Generator::new_blinded(s, other_asset.into_tag(), abf.into_inner());
        let other_comm = zkp::PedersenCommitment::new(s, value + 1, vbf.into_inner(), gen_);
        for (what, res) in [
            ("value+1", vp.blind_value_proof_verify(s, value + 1, gen_, comm)),
            ("value-1", vp.blind_value_proof_verify(s, value - 1, gen_, comm)),
            ("other-commitment", vp.blind_value_proof_verify(s, value, gen_, other_comm)),
            ("other-generator", vp.blind_value_proof_verify(s, value, other_gen, comm)),
        ] {
            if res {
                r.violation(format!("exact-value-proof/accepted-under/{}", what), case.clone(), "explicit-value proof verifies for a different tuple");
            }
        }
        // a genuine but NON-exact range proof for the same commitment (public minimum = the claimed amount, hidden range
        // above it) must not pass as an explicit-value proof of that amount: the commitment may hide any value of the range
        if value >= 4 && value < (1 << 40) {
            for (claimed, min_bits) in [(value, 8u8), (value - 3, 4), (value - 3, 16)] {
                // commitment to `value`, proof of "claimed <= hidden < claimed + 2^min_bits"
                let loose = guard(|| zkp::RangeProof::new(s, claimed, comm, value, vbf.into_inner(), &[], &[], gen::sk(7200 + k), 0, min_bits, gen_));
                if let Ok(Ok(p)) = loose {
                    r.trans(1);
                    if p.verify(s, comm, &[], gen_).is_err() {
                        continue; // not a valid proof at all (parameters refused by the prover): nothing to learn
                    }
                    if p.blind_value_proof_verify(s, claimed, gen_, comm) && claimed != value {
                        r.violation("exact-value-proof/accepted-under/non-exact-range-proof-for-another-amount", case.clone(), format!("a range proof with minimum {} and a hidden range verifies as an exact proof of {} although the commitment hides {}", claimed, claimed, value));
                    }
                    if claimed == value && p.blind_value_proof_verify(s, claimed, gen_, comm) {
                        r.violation("exact-value-proof/accepted-under/non-exact-range-proof", case.clone(), format!("a range proof whose range is [{}, {}+2^{}) verifies as an exact proof", claimed, claimed, min_bits));
                    }
                }
            }
        }
        let ap = match guard(|| zkp::SurjectionProof::blind_asset_proof(&mut rng, s, asset, abf)) {
            Ok(Ok(p)) => p,
            other => {
                r.violation("exact-asset-proof/cannot-create", case.clone(), format!("{:?}", other.map(|x| x.map(|_| ()))));
                continue;
            }
        };
        if !ap.blind_asset_proof_verify(s, asset, gen_) {
            r.violation("exact-asset-proof/genuine-rejected", case.clone(), "blind_asset_proof_verify false on the genuine tuple");
        }
        if ap.blind_asset_proof_verify(s, other_asset, gen_) {
            r.violation("exact-asset-proof/accepted-under/other-asset", case.clone(), "explicit-asset proof verifies for another asset");
        }
        if ap.blind_asset_proof_verify(s, asset, other_gen) {
            r.violation("exact-asset-proof/accepted-under/other-commitment", case.clone(), "explicit-asset proof verifies for another commitment");
        }
        r.nontrivial(fnv(&k.to_le_bytes()) ^ 0x55);
    }
}

pub fn run(r: &Report) {
    let thorough = r.tier.thorough();
    let stride = r.tier.pick(64usize, 1);
    r.set_rule(
        "(a) verifying transactions: a C04 sub-grid (1..3 inputs, explicit/confidential spent outputs, one/two assets, issuance, token-only issuance, reissuance, \
         1..3 marked outputs in all positions) + 6 transactions with a blinded output on a provably unspendable script (OP_RETURN data / bare OP_RETURN / empty) \
         + 4 hand-built mixed ones (explicit asset with confidential value; zero-value data output with a confidential asset) \
         + 4 with two / three blinded outputs sharing ONE asset generator (same asset blinding factor) \
         + 2 with an issuance whose inflation keys are blinded while its amount is explicit / absent \
         + the repository's real-network transaction; tampers at EVERY applicable position: explicit \
         amount +-1 (outputs, fee), asset swapped, value / asset commitment replaced by another valid one and by each other output's, made \
         explicit, each range / surjection proof removed, exchanged with each other output's, truncated, bit-flipped (thorough: every byte for 8 base transactions and every 16th for the rest; \
         quick: stride 64 / 16), script of each blinded output changed, issuance amount +-1 / removed / tokens+1 / entropy changed, each spent \
         output's value / asset changed, spent list shorter / longer (must be UtxoInputLenMismatch); (b) complete all-explicit product: 1..2 \
         inputs x assets {A,B} x values, issuance {none, amount, amount+tokens}, 0..2 outputs over assets {A,B,issued,token} x values 0..3 x \
         scripts {spendable, OP_RETURN, empty} (+ 3-output subset, + scripts of 9 999 / 10 000 / 10 001 bytes) vs the reference predicate; (c) exact-value / exact-asset proofs under \
         value+-1, other commitment, other generator, other asset, and genuine non-exact range proofs (hidden range above the claimed minimum). non-trivial = distinct verifying base transactions / balanced models",
    );
    // (a)
    let cases = c04::verifying_cases(r.seed, r.tier.pick(60, 400));
    r.set_extra("verifying_base_transactions", json!(cases.len()));
    // thorough: every bit position of every proof for the first 8 base transactions, every 16th byte for the rest
    // (a 4 KiB range proof costs ~5 ms per verification; all positions of all 400 bases would be a day of CPU)
    cases.par_iter().enumerate().for_each(|(k, (sc, tx, spent))| {
        let label = format!("{}in/{}marked", sc.inputs.len(), sc.outputs.iter().filter(|o| matches!(o.kind, OutKind::Marked(_))).count());
        check_tampers(r, &label, tx, spent, if thorough && k >= 8 { 16 } else { stride });
    });
    if let Some((_, tx, _)) = cases.first() {
        r.sample(json!({"base_tx_outputs": tx.output.len(), "tamper_classes_example": ["rangeproof-bit-flipped", "value-commitment-from-other-output", "spent-output-asset-changed/confidential"]}));
    }
    let burns = burn_cases(r.seed);
    r.set_extra("blinded_burn_base_transactions", json!(burns.len()));
    if burns.len() < 6 {
        r.machinery("could not build the blinded-burn base transactions");
    }
    burns.par_iter().for_each(|(label, tx, spent)| check_tampers(r, label, tx, spent, stride));
    let mixed = mixed_output_cases(r.seed);
    r.set_extra("mixed_output_base_transactions", json!(mixed.len()));
    if mixed.len() < 4 {
        r.machinery(format!("could not build the mixed-output base transactions ({} of 4)", mixed.len()));
    }
    mixed.par_iter().for_each(|(label, tx, spent)| check_tampers(r, label, tx, spent, stride));
    let bk = blinded_keys_issuance_cases();
    r.set_extra("blinded_keys_issuance_base_transactions", json!(bk.len()));
    if bk.len() < 2 {
        r.machinery(format!("could not build the blinded-inflation-keys base transactions ({} of 2)", bk.len()));
    }
    bk.par_iter().for_each(|(label, tx, spent)| check_tampers(r, label, tx, spent, stride));
    let same_gen = same_generator_cases(r.seed);
    r.set_extra("same_generator_base_transactions", json!(same_gen.len()));
    if same_gen.len() < 4 {
        r.machinery(format!("could not build the same-generator base transactions ({} of 4)", same_gen.len()));
    }
    same_gen.par_iter().for_each(|(label, tx, spent)| check_tampers(r, label, tx, spent, stride));
    // repository vector (transaction::tests::verify_ct): 1 confidential input, 2 CT outputs + fee
    if let Some((tx, spent)) = repo_vector() {
        check_tampers(r, "repository-vector", &tx, &spent, stride.max(16));
        r.set_extra("repository_vectors", json!(1));
    }
    // (b)
    let models = explicit_models(thorough);
    r.set_extra("explicit_models", json!(models.len()));
    models.par_iter().for_each(|m| check_explicit(r, m));
    r.sample(serde_json::to_value(&models[models.len() / 2]).unwrap());
    // (c)
    exact_proofs(r);
    r.not_exhaustive();
    r.assume("base transactions come from C04's scenario product with a fixed RNG stream (sampled dimension); tamper positions are enumerated completely, proof bit positions at the stated stride");
    r.assume("not demanded: changing the script or nonce of a spent output (not committed by amount verification), identity of the error variant beyond the length case; libsecp256k1-zkp trusted");
}

/// Verifying transactions with a BLINDED output on a provably unspendable script (OP_RETURN data, empty script),
/// built through with_txout_secrets / with_secrets_last (Transaction::blind only handles address scripts).
fn burn_cases(seed: u64) -> Vec<(String, Transaction, Vec<TxOut>)> {
    let s = secp();
    let mut out = Vec::new();
    for (k, burn_script) in [Script::from(vec![0x6a, 0x01, 0x42]), Script::new(), Script::from(vec![0x6a])].into_iter().enumerate() {
        for conf_in in [false, true] {
            let sc = Scenario {
                inputs: vec![c04::InSpec { asset: 0, conf: conf_in, issuance: None, asset_only: false }],
                outputs: vec![
                    c04::OutSpec { asset: 0, value: 30 + k as u64, kind: OutKind::Marked(2) },
                    c04::OutSpec { asset: 0, value: 12, kind: OutKind::Marked(3) },
                    c04::OutSpec { asset: 0, value: 2, kind: OutKind::Fee },
                ],
                rng_stream: k as u64,
            };
            let b = c04::build(&sc);
            let mut rng = DetRng::new(seed, 0xC05B, k as u64 * 2 + conf_in as u64);
            let abf0 = AssetBlindingFactor::from_slice(gen::tweak(7300 + k as u64).as_ref()).unwrap();
            let vbf0 = ValueBlindingFactor::from_slice(gen::tweak(7400 + k as u64).as_ref()).unwrap();
            let abf1 = AssetBlindingFactor::from_slice(gen::tweak(7500 + k as u64).as_ref()).unwrap();
            let rpk0 = zkp::PublicKey::from_secret_key(s, &b.receiver[0].unwrap());
            let rpk1 = zkp::PublicKey::from_secret_key(s, &b.receiver[1].unwrap());
            let sec0 = elements::TxOutSecrets::new(b.out_assets[0], abf0, 30 + k as u64, vbf0);
            let built = guard(|| -> Result<Transaction, String> {
                // the burn output carries the unspendable script
                let o0 = TxOut::with_txout_secrets(&mut rng, s, burn_script.clone(), rpk0, gen::sk(7600 + k as u64), sec0, &b.secrets).map_err(|e| format!("{:?}", e))?;
                let fee_sec = elements::TxOutSecrets::new(c04::asset_a(), AssetBlindingFactor::zero(), 2, ValueBlindingFactor::zero());
                let (o1, _) = TxOut::with_secrets_last(&mut rng, s, 12, b.tx.output[1].script_pubkey.clone(), rpk1, b.out_assets[1], gen::sk(7700 + k as u64), abf1, &b.secrets, &[&sec0, &fee_sec])
                    .map_err(|e| format!("{:?}", e))?;
                let mut tx = b.tx.clone();
                tx.output[0] = o0;
                tx.output[1] = o1;
                Ok(tx)
            });
            if let Ok(Ok(tx)) = built {
                out.push((format!("blinded-output-on-unspendable-script/{}", ["op_return-data", "empty", "op_return"][k]), tx, b.spent));
            }
        }
    }
    out
}

/// Verifying transactions in which two (three) blinded outputs commit to the SAME asset generator (same asset, same asset
/// blinding factor; legal, and what wallets that reuse an abf produce). Every output still needs its own proofs.
fn same_generator_cases(seed: u64) -> Vec<(String, Transaction, Vec<TxOut>)> {
    let s = secp();
    let mut out = Vec::new();
    for conf_in in [false, true] {
        for all_three in [false, true] {
            let k = conf_in as u64 * 2 + all_three as u64;
            let sc = Scenario {
                inputs: vec![c04::InSpec { asset: 0, conf: conf_in, issuance: None, asset_only: false }],
                outputs: vec![
                    c04::OutSpec { asset: 0, value: 21, kind: OutKind::Marked(0) },
                    c04::OutSpec { asset: 0, value: 13, kind: OutKind::Marked(2) },
                    c04::OutSpec { asset: 0, value: 8, kind: OutKind::Marked(4) },
                    c04::OutSpec { asset: 0, value: 2, kind: OutKind::Fee },
                ],
                rng_stream: 20 + k,
            };
            let b = c04::build(&sc);
            let mut rng = DetRng::new(seed, 0xC05D, k);
            let abf = AssetBlindingFactor::from_slice(gen::tweak(7900 + k).as_ref()).unwrap();
            let vbf0 = ValueBlindingFactor::from_slice(gen::tweak(7910 + k).as_ref()).unwrap();
            let vbf1 = ValueBlindingFactor::from_slice(gen::tweak(7920 + k).as_ref()).unwrap();
            let sec0 = elements::TxOutSecrets::new(b.out_assets[0], abf, 21, vbf0);
            let sec1 = elements::TxOutSecrets::new(b.out_assets[1], abf, 13, vbf1);
            let fee_sec = elements::TxOutSecrets::new(c04::asset_a(), AssetBlindingFactor::zero(), 2, ValueBlindingFactor::zero());
            let built = guard(|| -> Result<Transaction, String> {
                let pk = |i: usize| zkp::PublicKey::from_secret_key(s, &b.receiver[i].unwrap());
                let o0 = TxOut::with_txout_secrets(&mut rng, s, b.tx.output[0].script_pubkey.clone(), pk(0), gen::sk(7930 + k), sec0, &b.secrets).map_err(|e| format!("{:?}", e))?;
                let o1 = TxOut::with_txout_secrets(&mut rng, s, b.tx.output[1].script_pubkey.clone(), pk(1), gen::sk(7940 + k), sec1, &b.secrets).map_err(|e| format!("{:?}", e))?;
                let last_abf = if all_three { abf } else { AssetBlindingFactor::from_slice(gen::tweak(7950 + k).as_ref()).unwrap() };
                let (o2, _) = TxOut::with_secrets_last(&mut rng, s, 8, b.tx.output[2].script_pubkey.clone(), pk(2), b.out_assets[2], gen::sk(7960 + k), last_abf, &b.secrets, &[&sec0, &sec1, &fee_sec])
                    .map_err(|e| format!("{:?}", e))?;
                let mut tx = b.tx.clone();
                tx.output[0] = o0;
                tx.output[1] = o1;
                tx.output[2] = o2;
                Ok(tx)
            });
            if let Ok(Ok(tx)) = built {
                debug_assert!(tx.output[0].asset == tx.output[1].asset);
                out.push((format!("outputs-sharing-one-asset-generator/{}", if all_three { "three" } else { "two" }), tx, b.spent));
            }
        }
    }
    out
}

/// Verifying transactions whose input carries an issuance with BLINDED inflation keys next to an explicit (or absent)
/// issuance amount: the reissuance-token id is then the "unblinded issuance" one (the flag follows the AMOUNT only), and
/// the token output balances the blinding factor of the keys commitment.
fn blinded_keys_issuance_cases() -> Vec<(String, Transaction, Vec<TxOut>)> {
    use elements::RangeProofMessage;
    let s = secp();
    let mut out = Vec::new();
    for (k, amount) in [Some(50u64), None].into_iter().enumerate() {
        let built = guard(|| -> Result<(Transaction, Vec<TxOut>), String> {
            let tokens = 3u64;
            let r_keys = ValueBlindingFactor::from_slice(gen::tweak(7970 + k as u64).as_ref()).unwrap();
            let mut input = TxIn {
                previous_output: OutPoint::new(Txid::from_byte_array(pat32(4)), 0),
                is_pegin: false,
                script_sig: Script::new(),
                sequence: Sequence::MAX,
                asset_issuance: AssetIssuance { asset_blinding_nonce: zkp::ZERO_TWEAK, asset_entropy: pat32(5), amount: amount.map(CValue::Explicit).unwrap_or(CValue::Null), inflation_keys: CValue::Explicit(tokens) },
                witness: TxInWitness::default(),
            };
            // ids from the reference derivation, with the keys still explicit (the flag follows the amount, which is not blinded)
            let (a, t) = crate::props::c11::ref_ids(&crate::oracle::model::from_txin(&input));
            let (issued, token) = (AssetId::from_byte_array(a), AssetId::from_byte_array(t));
            let zero_abf = AssetBlindingFactor::zero();
            input.asset_issuance.inflation_keys = CValue::new_confidential_from_assetid(s, tokens, token, r_keys, zero_abf);
            let spent = vec![TxOut { asset: Asset::Explicit(c04::asset_a()), value: CValue::Explicit(100), nonce: Nonce::Null, script_pubkey: template_script(2, 201), witness: TxOutWitness::default() }];
            let plain = |asset: AssetId, v: u64, j: u8| TxOut { asset: Asset::Explicit(asset), value: CValue::Explicit(v), nonce: Nonce::Null, script_pubkey: template_script(2, j), witness: TxOutWitness::default() };
            let mut outputs = vec![plain(c04::asset_a(), 98, 1)];
            if let Some(v) = amount {
                outputs.push(plain(issued, v, 2));
            }
            // the token output: fully blinded (asset and value); its surjection proof is over the domain that contains the
            // token's unblinded generator (the issuance pseudo-input), its value blinding factor balances the keys commitment
            let spk = template_script(3, 3);
            let _ = RangeProofMessage::new(token, zero_abf);
            let zero_vbf = ValueBlindingFactor::zero();
            let mut in_secrets = vec![elements::TxOutSecrets::new(c04::asset_a(), zero_abf, 100, zero_vbf)];
            if let Some(v) = amount {
                in_secrets.push(elements::TxOutSecrets::new(issued, zero_abf, v, zero_vbf));
            }
            in_secrets.push(elements::TxOutSecrets::new(token, zero_abf, tokens, r_keys));
            let mut out_secrets = vec![elements::TxOutSecrets::new(c04::asset_a(), zero_abf, 98, zero_vbf), elements::TxOutSecrets::new(c04::asset_a(), zero_abf, 2, zero_vbf)];
            if let Some(v) = amount {
                out_secrets.push(elements::TxOutSecrets::new(issued, zero_abf, v, zero_vbf));
            }
            let out_refs: Vec<&elements::TxOutSecrets> = out_secrets.iter().collect();
            let mut rng = DetRng::new(0, 0xC05E, k as u64);
            let out_abf = AssetBlindingFactor::from_slice(gen::tweak(7990 + k as u64).as_ref()).unwrap();
            let rpk = zkp::PublicKey::from_secret_key(s, &gen::sk(7985 + k as u64));
            let (tok_out, _) = TxOut::with_secrets_last(&mut rng, s, tokens, spk, rpk, token, gen::sk(7980 + k as u64), out_abf, &in_secrets, &out_refs).map_err(|e| format!("{:?}", e))?;
            outputs.push(tok_out);
            outputs.push(TxOut::new_fee(2, c04::asset_a()));
            Ok((Transaction { version: 2, lock_time: LockTime::ZERO, input: vec![input], output: outputs }, spent))
        });
        if let Ok(Ok((tx, spent))) = built {
            out.push((format!("issuance-with-blinded-inflation-keys/{}", if amount.is_some() { "explicit-amount" } else { "no-amount" }), tx, spent));
        }
    }
    out
}

/// Verifying transactions with MIXED outputs built by hand:
///  (a) explicit asset + confidential value (range proof against the unblinded generator), twice, balancing each other;
///  (b) a zero-value OP_RETURN / empty-script output with a CONFIDENTIAL asset and its surjection proof.
fn mixed_output_cases(seed: u64) -> Vec<(String, Transaction, Vec<TxOut>)> {
    use elements::RangeProofMessage;
    let s = secp();
    let mut out = Vec::new();
    for conf_in in [false, true] {
        let sc = Scenario {
            inputs: vec![c04::InSpec { asset: 0, conf: conf_in, issuance: None, asset_only: false }],
            outputs: vec![
                c04::OutSpec { asset: 0, value: 40, kind: OutKind::Plain },
                c04::OutSpec { asset: 0, value: 17, kind: OutKind::Plain },
                c04::OutSpec { asset: 0, value: 2, kind: OutKind::Fee },
            ],
            rng_stream: 9,
        };
        let b = c04::build(&sc);
        let in_secret = b.secrets[0];
        // (a)
        let built = guard(|| -> Result<Transaction, String> {
            let zero_abf = AssetBlindingFactor::zero();
            let msg = RangeProofMessage::new(c04::asset_a(), zero_abf);
            let r0 = ValueBlindingFactor::from_slice(gen::tweak(7800 + conf_in as u64).as_ref()).unwrap();
            let (v0, p0) = CValue::Explicit(40).blind_with_shared_secret(s, r0, gen::sk(7801), &b.tx.output[0].script_pubkey, &msg).map_err(|e| format!("{:?}", e))?;
            let r1 = ValueBlindingFactor::last(s, 17, zero_abf, &[in_secret.value_blind_inputs()], &[(40, zero_abf, r0), (2, zero_abf, ValueBlindingFactor::zero())]);
            let (v1, p1) = CValue::Explicit(17).blind_with_shared_secret(s, r1, gen::sk(7802), &b.tx.output[1].script_pubkey, &msg).map_err(|e| format!("{:?}", e))?;
            let mut tx = b.tx.clone();
            tx.output[0].value = v0;
            tx.output[0].witness.rangeproof = Some(Box::new(p0));
            tx.output[1].value = v1;
            tx.output[1].witness.rangeproof = Some(Box::new(p1));
            Ok(tx)
        });
        if let Ok(Ok(tx)) = built {
            out.push(("explicit-asset+confidential-value".to_string(), tx, b.spent.clone()));
        }
        // (b) only with an explicit spent output: explicit outputs cannot balance a blinded input
        if conf_in {
            continue;
        }
        for burn_script in [Script::from(vec![0x6a, 0x02, 1, 2]), Script::new()] {
            let built = guard(|| -> Result<Transaction, String> {
                let mut rng = DetRng::new(seed, 0xC05C, conf_in as u64);
                let abf = AssetBlindingFactor::from_slice(gen::tweak(7810).as_ref()).unwrap();
                let (asset, proof) = Asset::Explicit(c04::asset_a()).blind(&mut rng, s, abf, &b.secrets).map_err(|e| format!("{:?}", e))?;
                let mut tx = b.tx.clone();
                // balance: 40 + 17 + 2 stays; add a zero-value data output with a blinded asset
                tx.output.insert(1, TxOut { asset, value: CValue::Explicit(0), nonce: Nonce::Null, script_pubkey: burn_script.clone(), witness: TxOutWitness { surjection_proof: Some(Box::new(proof)), rangeproof: None } });
                Ok(tx)
            });
            if let Ok(Ok(tx)) = built {
                out.push(("zero-value-output-with-confidential-asset".to_string(), tx, b.spent.clone()));
            }
        }
    }
    out
}

/// the blinded transaction + its spent output pinned in the doc example of verify_tx_amt_proofs
fn repo_vector() -> Option<(Transaction, Vec<TxOut>)> {
    let txt = std::fs::read_to_string("/verif/vectors/verify_ct.json").ok()?;
    let v: Value = serde_json::from_str(&txt).ok()?;
    let tx: Transaction = elements::encode::deserialize(&crate::engine::unhex(v["tx"].as_str()?)).ok()?;
    let asset: Asset = elements::encode::deserialize(&crate::engine::unhex(v["asset"].as_str()?)).ok()?;
    let value: CValue = elements::encode::deserialize(&crate::engine::unhex(v["value"].as_str()?)).ok()?;
    let spk: Script = elements::encode::deserialize(&crate::engine::unhex(v["spk"].as_str()?)).ok()?;
    Some((tx, vec![TxOut { asset, value, nonce: Nonce::Null, script_pubkey: spk, witness: TxOutWitness::default() }]))
}

pub fn replay(case: &Value) -> String {
    if case.get("ins").is_some() {
        let r = Report::new("C05", crate::engine::Tier::Quick, 0);
        match serde_json::from_value::<Explicit>(case.clone()) {
            Ok(m) => check_explicit(&r, &m),
            Err(e) => return format!("bad case {}", e),
        }
        let v = r.take_violations();
        return if v.is_empty() { "HOLDS".into() } else { format!("VIOLATES {} ({})", v[0].1.class, v[0].1.detail) };
    }
    let tx: Option<Transaction> = case["tx"].as_str().and_then(|h| elements::encode::deserialize(&crate::engine::unhex(h)).ok());
    let spent: Vec<TxOut> = case["spent"].as_array().cloned().unwrap_or_default().iter().filter_map(|s| s.as_str()).filter_map(|h| elements::encode::deserialize(&crate::engine::unhex(h)).ok()).collect();
    match tx {
        Some(t) => match verify(&t, &spent) {
            Ok(Ok(())) => format!("VIOLATES tampered transaction ({}) verifies", case["tamper"]),
            Ok(Err(e)) => format!("HOLDS rejected: {:?}", e),
            Err(p) => format!("VIOLATES panic {}", p),
        },
        None => "cannot decode case".into(),
    }
}

#[allow(dead_code)]
fn _scn(_: Scenario) {}
