//! C19 — dynafed parameter roots survive compaction and match the commitment layout.

use crate::engine::{fnv, guard, hex, Report};
use crate::gen;
use crate::oracle::dynafed as od;
use crate::oracle::model::*;
use elements::dynafed::Params;
use rayon::prelude::*;
use serde_json::{json, Value};

fn check_full(r: &Report, f: &RFull) {
    r.eval(1);
    r.state(1);
    r.trans(6);
    let case = || serde_json::to_value(format!("{:?}", f)).unwrap();
    let exp = od::params_root(&RParams::Full(f.clone()));
    let exp_extra = od::extra_root(f);
    let res = guard(|| {
        let lf = to_full(f);
        let direct = lf.calculate_root().to_byte_array();
        let via_params = Params::Full(lf.clone()).calculate_root().to_byte_array();
        let compact = lf.clone().into_compact();
        let compact_root = compact.calculate_root().to_byte_array();
        let compact2 = compact.clone().into_compact();
        let via_params_compact = Params::Full(lf.clone()).into_compact();
        (direct, via_params, compact, compact_root, compact2, via_params_compact)
    });
    match res {
        Err(p) => r.violation("panic", case(), p),
        Ok((direct, via_params, compact, compact_root, compact2, via_pc)) => {
            r.trace(1);
            if direct != exp {
                r.violation("full-root-differs-from-layout", case(), format!("lib={} ref={}", hex(&direct), hex(&exp)));
            }
            if via_params != direct {
                r.violation("params-full-root-differs-from-fullparams-root", case(), "Params::Full(f).calculate_root() != f.calculate_root()");
            }
            if compact_root != direct {
                r.violation("compaction-changes-root", case(), format!("full={} compact={}", hex(&direct), hex(&compact_root)));
            }
            match &compact {
                Params::Compact { signblockscript, signblock_witness_limit, elided_root } => {
                    if signblockscript.as_bytes() != &f.signblockscript[..] || *signblock_witness_limit != f.limit {
                        r.violation("compaction-changes-signblock-fields", case(), "into_compact altered signblockscript / limit");
                    }
                    if elided_root.to_byte_array() != exp_extra {
                        r.violation("elided-root-not-extra-root", case(), format!("elided={} ref extra={}", hex(&elided_root.to_byte_array()), hex(&exp_extra)));
                    }
                }
                _ => r.violation("into_compact-not-compact", case(), "FullParams::into_compact did not return Params::Compact"),
            }
            if compact2 != Some(compact.clone()) {
                r.violation("compact-of-compact-differs", case(), "Params::Compact.into_compact() != Some(self)");
            }
            if via_pc != Some(compact.clone()) {
                r.violation("params-into_compact-differs", case(), "Params::Full(f).into_compact() != Some(f.into_compact())");
            }
            // reference model of the compact form agrees too
            let rc = from_params(&compact);
            if od::params_root(&rc) != exp {
                r.violation("compact-root-differs-from-layout", case(), "reference root of the compact form differs");
            }
            let mut enc = Vec::new();
            enc_full_params(&mut enc, f);
            r.nontrivial(fnv(&enc));
            if r.sample_room() && f.ext.len() == 2 {
                r.sample(json!({"full_params": format!("{:?}", f), "root": hex(&direct), "elided_root": hex(&exp_extra)}));
            }
        }
    }
}

pub fn run(r: &Report) {
    match od::selftest() {
        Ok(n) => r.set_extra("oracle_selftest_vectors", json!(n)),
        Err(e) => return r.machinery(e),
    }
    r.set_rule(
        "complete product of the FullParams alphabet: signblockscript / fedpeg program / fedpegscript lengths {0,1,(75,)76,253} x \
         witness limit {0,1,MAX} x 5 extension spaces (0..3 entries of length 0/1/2/33); their compact forms; Null; every dynafed \
         header over a 5-element params menu squared x 3 witness shapes, and the legacy headers (root must be None); the parameter product again on one thread in 6 orders (generation, reversed, sorted by each field group) so that sets differing in one field group are hashed back to back. \
         non-trivial = distinct parameter encodings",
    );
    let fulls = gen::full_params(r.tier.thorough());
    r.set_extra("full_params", json!(fulls.len()));
    fulls.par_iter().for_each(|f| check_full(r, f));
    // histories on ONE thread (the roots are pure functions of the parameters): the whole product again in generation
    // order, reversed, and in four orders sorted so that parameter sets differing in exactly one group of fields (extension
    // space / fedpeg data / signblock data / witness limit) are evaluated back to back
    {
        let mut n_hist = 0u64;
        let mut orders: Vec<Vec<&RFull>> = vec![fulls.iter().collect(), fulls.iter().rev().collect()];
        let mut by_fedpeg: Vec<&RFull> = fulls.iter().collect();
        by_fedpeg.sort_by(|a, b| (&a.fedpeg_program, &a.fedpegscript, &a.signblockscript, a.limit, &a.ext).cmp(&(&b.fedpeg_program, &b.fedpegscript, &b.signblockscript, b.limit, &b.ext)));
        orders.push(by_fedpeg);
        let mut by_ext: Vec<&RFull> = fulls.iter().collect();
        by_ext.sort_by(|a, b| (&a.ext, &a.signblockscript, a.limit, &a.fedpeg_program, &a.fedpegscript).cmp(&(&b.ext, &b.signblockscript, b.limit, &b.fedpeg_program, &b.fedpegscript)));
        orders.push(by_ext);
        let mut by_sbs: Vec<&RFull> = fulls.iter().collect();
        by_sbs.sort_by(|a, b| (&a.signblockscript, &a.fedpeg_program, &a.fedpegscript, &a.ext, a.limit).cmp(&(&b.signblockscript, &b.fedpeg_program, &b.fedpegscript, &b.ext, b.limit)));
        orders.push(by_sbs);
        let mut by_limit: Vec<&RFull> = fulls.iter().collect();
        by_limit.sort_by(|a, b| (a.limit, &a.ext, &a.fedpegscript, &a.fedpeg_program, &a.signblockscript).cmp(&(b.limit, &b.ext, &b.fedpegscript, &b.fedpeg_program, &b.signblockscript)));
        orders.push(by_limit);
        for o in &orders {
            for f in o.iter().take(r.tier.pick(1300, 100_000)) {
                check_full(r, f);
                n_hist += 1;
            }
        }
        r.set_extra("sequential_history_cases", json!(n_hist));
    }
    // Null
    r.eval(1);
    r.state(1);
    r.trans(2);
    if Params::Null.calculate_root().to_byte_array() != [0u8; 32] {
        r.violation("null-root-nonzero", json!("Null"), "Params::Null root is not all-zero");
    }
    if Params::Null.into_compact().is_some() {
        r.violation("null-into_compact-some", json!("Null"), "Params::Null.into_compact() is Some");
    }
    // compact menu
    for p in gen::params_menu() {
        r.eval(1);
        r.state(1);
        r.trans(1);
        let got = to_params(&p).calculate_root().to_byte_array();
        if got != od::params_root(&p) {
            r.violation("params-root-differs-from-layout", json!(format!("{:?}", p)), format!("lib={} ref={}", hex(&got), hex(&od::params_root(&p))));
        }
    }
    // headers
    let hs = gen::headers();
    let mut dyn_n = 0u64;
    for h in &hs {
        r.eval(1);
        r.state(1);
        r.trans(1);
        let lib = to_header(h);
        let got = guard(|| lib.calculate_dynafed_params_root().map(|x| x.to_byte_array()));
        let exp = od::header_root(h);
        match got {
            Err(p) => r.violation("header/panic", json!(hex(&h.enc_full())), p),
            Ok(g) => {
                r.trace(1);
                if g != exp {
                    r.violation(
                        if h.is_dynafed() { "header/dynafed-root-mismatch" } else { "header/legacy-root-not-none" },
                        json!(hex(&h.enc_full())),
                        format!("lib={:?} ref={:?}", g.map(|x| hex(&x)), exp.map(|x| hex(&x))),
                    );
                }
                if h.is_dynafed() {
                    dyn_n += 1;
                    r.nontrivial(fnv(&h.enc_full()));
                }
            }
        }
    }
    r.set_extra("dynafed_headers", json!(dyn_n));
    r.assume("script / extension contents come from a deterministic byte pattern per length (lengths and counts are the enumerated dimension)");
}

pub fn replay(_case: &Value) -> String {
    "re-run ./check C19 (cases are regenerated deterministically)".into()
}
