//! C08 — PSET and transaction views agree; unique id and lock time follow BIP370.
//! (a) tx -> PSET -> tx over the structural transaction generators; (b) explicit-state search over
//! updater / signer / finalizer histories with the unique id as invariant; (c) complete product of
//! lock-time requirement assignments against a transcription of BIP370.

use crate::engine::{fnv, guard, hex, Report};
use crate::gen::{self, pat32};
use crate::oracle::model::*;
use crate::psetgen::*;
use elements::encode::serialize;
use elements::pset::{Input, PartiallySignedTransaction as Pset};
use elements::{LockTime, OutPoint, Script, Transaction, Txid};
use rayon::prelude::*;
use serde_json::{json, Value};
use std::collections::{HashMap, VecDeque};

// ------------------------------------------------------------------------------------------------
// (a) round trip

fn well_formed(t: &RTx) -> bool {
    t.ins.iter().all(|i| {
        (i.is_pegin || i.wit.pegin_wit.is_empty()) && (i.issuance.is_some() || (i.wit.amount_rp.is_empty() && i.wit.keys_rp.is_empty())) && !(i.vout == 0xffff_ffff && i.is_pegin)
    }) && t.outs.iter().all(|o| o.asset != RAsset::Null && o.value != RValue::Null)
}

/// independent field-by-field reference extraction from a PSET built by from_tx: what the PSET's own
/// fields say the transaction is
fn reference_extract(p: &Pset, lock_time: u32) -> RTx {
    RTx {
        version: p.global.tx_data.version,
        lock_time,
        ins: p
            .inputs()
            .iter()
            .map(|i| {
                let idx = i.previous_output_index;
                let (vout, pegin, _iss) = if idx == 0xffff_ffff { (idx, false, false) } else { (idx & 0x3fff_ffff, idx & (1 << 30) != 0, idx & (1 << 31) != 0) };
                let amount = match (i.issuance_value_amount, i.issuance_value_comm) {
                    (_, Some(c)) => RValue::Conf(c.serialize()),
                    (Some(x), None) => RValue::Explicit(x),
                    _ => RValue::Null,
                };
                let keys = match (i.issuance_inflation_keys, i.issuance_inflation_keys_comm) {
                    (_, Some(c)) => RValue::Conf(c.serialize()),
                    (Some(x), None) => RValue::Explicit(x),
                    _ => RValue::Null,
                };
                RTxIn {
                    txid: i.previous_txid.to_byte_array(),
                    vout,
                    is_pegin: pegin,
                    script_sig: i.final_script_sig.as_ref().map(|s| s.to_bytes()).unwrap_or_default(),
                    sequence: i.sequence.map(|s| s.0).unwrap_or(0xffff_ffff),
                    issuance: if amount == RValue::Null && keys == RValue::Null {
                        None
                    } else {
                        Some(RIssuance {
                            nonce: i.issuance_blinding_nonce.map(|t| *t.as_ref()).unwrap_or([0; 32]),
                            entropy: i.issuance_asset_entropy.unwrap_or([0; 32]),
                            amount,
                            keys,
                        })
                    },
                    wit: RInWit {
                        amount_rp: i.issuance_value_rangeproof.as_ref().map(|p| p.serialize()).unwrap_or_default(),
                        keys_rp: i.issuance_keys_rangeproof.as_ref().map(|p| p.serialize()).unwrap_or_default(),
                        script_wit: i.final_script_witness.clone().unwrap_or_default(),
                        pegin_wit: i.pegin_witness.clone().unwrap_or_default(),
                    },
                }
            })
            .collect(),
        outs: p
            .outputs()
            .iter()
            .map(|o| RTxOut {
                asset: match (o.asset_comm, o.asset) {
                    (Some(g), _) => RAsset::Conf(g.serialize()),
                    (None, Some(a)) => RAsset::Explicit(a.to_byte_array()),
                    _ => RAsset::Null,
                },
                value: match (o.amount_comm, o.amount) {
                    (Some(c), _) => RValue::Conf(c.serialize()),
                    (None, Some(x)) => RValue::Explicit(x),
                    _ => RValue::Null,
                },
                nonce: o.ecdh_pubkey.map(|k| RNonce::Conf(k.inner.serialize())).unwrap_or(RNonce::Null),
                script: o.script_pubkey.to_bytes(),
                surj: o.asset_surjection_proof.as_ref().map(|p| p.serialize()).unwrap_or_default(),
                rp: o.value_rangeproof.as_ref().map(|p| p.serialize()).unwrap_or_default(),
            })
            .collect(),
    }
}

fn check_roundtrip(r: &Report, t: &RTx) {
    r.eval(1);
    r.state(1);
    r.trans(3);
    let lib = to_tx(t);
    let full = t.enc_full();
    let case = || json!({"tx": hex(&full)});
    let res = guard(|| {
        let p = Pset::from_tx(lib.clone());
        let a = p.extract_tx();
        let b = p.extract_tx();
        (p, a, b)
    });
    match res {
        Err(p) => r.violation(format!("tx-pset-tx/panic@{}", crate::engine::panic_site(&p)), case(), p),
        Ok((p, a, b)) => {
            r.trace(1);
            match (a, b) {
                (Ok(a), Ok(b)) => {
                    if a != b {
                        r.violation("extract/not-deterministic", case(), "two extractions of the same PSET differ");
                    }
                    // extraction reflects exactly the PSET's fields
                    let rx = reference_extract(&p, t.lock_time);
                    if from_tx(&a) != rx {
                        r.violation("extract/differs-from-fields", case(), "extract_tx() is not the field-by-field reading of the PSET");
                    }
                    if a != lib {
                        // classify the difference
                        let ra = from_tx(&a);
                        let mut norm = t.clone();
                        let mut kinds = std::collections::BTreeSet::new();
                        for (j, o) in norm.outs.iter_mut().enumerate() {
                            let partially_blinded = matches!(o.asset, RAsset::Conf(_)) || matches!(o.value, RValue::Conf(_)) || !o.wit_empty();
                            match &o.nonce {
                                RNonce::Explicit(_) => {
                                    kinds.insert("explicit-nonce");
                                    o.nonce = RNonce::Null;
                                }
                                RNonce::Conf(_) if !partially_blinded => {
                                    kinds.insert("confidential-nonce-on-unblinded-output");
                                    o.nonce = RNonce::Null;
                                }
                                _ => {}
                            }
                            let _ = j;
                        }
                        if norm == ra && !kinds.is_empty() {
                            for k in kinds {
                                r.violation(format!("tx-pset-tx/output-nonce-dropped/{}", k), case(), "tx -> PSET -> tx returns the transaction with this output nonce replaced by Null");
                            }
                        } else {
                            let what = if ra.ins != t.ins { "inputs" } else if ra.outs != t.outs { "outputs" } else { "header" };
                            let coinbase = t.ins.iter().any(|i| i.vout == 0xffff_ffff);
                            r.violation(format!("tx-pset-tx/differs/{}{}", what, if coinbase { "/null-outpoint-input" } else { "" }), case(), format!("extracted transaction differs in its {}", what));
                        }
                    }
                    r.nontrivial(fnv(&full));
                }
                (Err(e), _) | (_, Err(e)) => r.violation("tx-pset-tx/extract-error", case(), format!("{:?}", e)),
            }
        }
    }
}

/// (a2) "extraction of any PSET is deterministic and reflects exactly its fields", for PSETs that were NOT produced by
/// from_tx (hand-built through the public fields, decoded from bytes, reached by updater histories): extract twice,
/// compare with the field-by-field reading (flag bits of the index stripped, commitments before explicit values, lock
/// time by BIP370), the same after a serialization hop, and each Output::to_txout() against the extracted output.
fn check_extraction(r: &Report, p: &Pset, origin: &str) {
    r.trans(2);
    let case = || json!({"pset": hex(&serialize(p)), "origin": origin});
    let reqs: Vec<(Option<u32>, Option<u32>)> = p.inputs().iter().map(|i| (i.required_time_locktime.map(|t| t.to_consensus_u32()), i.required_height_locktime.map(|h| h.to_consensus_u32()))).collect();
    let exp_lock = bip370(&reqs, p.global.tx_data.fallback_locktime.map(|l| l.to_consensus_u32()));
    let res = guard(|| (p.extract_tx(), p.extract_tx()));
    match res {
        Err(pn) => r.violation(format!("extract/panic@{}", crate::engine::panic_site(&pn)), case(), pn),
        Ok((Ok(a), Ok(b))) => {
            r.trace(1);
            if a != b {
                r.violation("extract/not-deterministic", case(), "two extractions of the same PSET differ");
            }
            match exp_lock {
                None => r.violation("extract/ok-despite-locktime-conflict", case(), "extract_tx succeeded although no lock-time kind is supported by all inputs"),
                Some(l) => {
                    let rx = reference_extract(p, l);
                    let ra = from_tx(&a);
                    if ra != rx {
                        let what = if ra.ins != rx.ins { "inputs" } else if ra.outs != rx.outs { "outputs" } else { "header" };
                        r.violation(format!("extract/differs-from-fields/{}/{}", what, origin.split('/').next().unwrap_or("")), case(), format!("extract_tx() is not the field-by-field reading of the PSET ({})", what));
                    }
                }
            }
            // the per-output view agrees with the extracted transaction (the nonce only where the output is blinded:
            // to_txout documents the receiver-key convention for unblinded outputs)
            for (j, o) in p.outputs().iter().enumerate() {
                let t = o.to_txout();
                let x = &a.output[j];
                if t.asset != x.asset || t.value != x.value || t.script_pubkey != x.script_pubkey || t.witness != x.witness || (o.is_partially_blinded() && t.nonce != x.nonce) {
                    r.violation("extract/to_txout-differs-from-extracted-output", case(), format!("output {}: to_txout() and extract_tx().output disagree", j));
                }
            }
            // the same PSET after a serialization hop extracts to the same transaction
            if let Ok(q) = elements::encode::deserialize::<Pset>(&serialize(p)) {
                match q.extract_tx() {
                    Ok(c) if c == a => {}
                    other => r.violation("extract/differs-after-serialization-hop", case(), format!("{:?}", other.map(|t| t.txid()))),
                }
            }
        }
        Ok((ea, _)) => {
            if exp_lock.is_some() {
                r.violation("extract/error", case(), format!("{:?}", ea.err()));
            }
        }
    }
}

// ------------------------------------------------------------------------------------------------
// (b) unique id under updater / signer / finalizer histories

#[derive(Clone, Debug, PartialEq, Eq, Hash, serde::Serialize, serde::Deserialize)]
pub enum Upd {
    In(usize, String, u64),
    Out(usize, String, u64),
    Glob(String, u64),
}

const ID_NEUTRAL_INPUT: [&str; 24] = [
    "sequence", "partial_sigs", "sighash_type", "redeem_script", "witness_script", "bip32_derivation", "final_script_sig", "final_script_witness",
    "tap_key_sig", "tap_script_sigs", "tap_scripts", "tap_key_origins", "tap_internal_key", "tap_merkle_root", "amount", "blind_value_proof", "asset",
    "blind_asset_proof", "in_utxo_rangeproof", "witness_utxo", "non_witness_utxo", "sha256_preimages", "proprietary", "unknown",
];
const ID_NEUTRAL_OUTPUT: [&str; 9] =
    ["redeem_script", "witness_script", "bip32_derivation", "tap_internal_key", "tap_tree", "tap_key_origins", "blind_value_proof", "blind_asset_proof", "proprietary"];
const ID_NEUTRAL_GLOBAL: [&str; 4] = ["xpub", "tx_modifiable", "proprietary", "unknown"];
/// explicit-value proof fields that are identity-neutral only when the corresponding commitment is already there
const EXPLICIT_ON_BLINDED_INPUT: [&str; 4] = ["issuance_value_amount", "issuance_inflation_keys", "in_issuance_blind_value_proof", "in_issuance_blind_inflation_keys_proof"];

/// a PSET whose first input has a blinded issuance (amount and keys commitments) and whose outputs are blinded
pub fn blinded_base() -> Pset {
    let mut p = base_pset(1, 2, 0);
    {
        let i = &mut p.inputs_mut()[0];
        i.previous_output_index |= 1 << 31;
        i.issuance_value_comm = Some(comm(0));
        i.issuance_inflation_keys_comm = Some(comm(1));
        i.issuance_asset_entropy = Some(pat32(5));
        i.issuance_value_rangeproof = Some(rp(0));
        i.issuance_keys_rangeproof = Some(rp(1));
    }
    for (j, o) in p.outputs_mut().iter_mut().enumerate() {
        o.amount = None;
        o.asset = None;
        o.amount_comm = Some(comm(2 + j as u64));
        o.asset_comm = Some(generator(j as u64));
        o.value_rangeproof = Some(rp(j as u64));
        o.asset_surjection_proof = Some(sp(j as u64));
        o.ecdh_pubkey = Some(btc_pk(90 + j as u64));
    }
    p
}

pub fn apply(p: &mut Pset, u: &Upd) {
    match u {
        Upd::In(i, name, v) => {
            let f = input_fields().into_iter().find(|f| f.name == name).expect("field");
            (f.set)(&mut p.inputs_mut()[*i], *v);
        }
        // an updater marks an output for blinding: receiver blinding key + blinder index (the two go together)
        Upd::Out(i, name, v) if name == "mark-for-blinding" => {
            let o = &mut p.outputs_mut()[*i];
            o.blinding_key = Some(btc_pk(70 + *v));
            o.blinder_index = Some(0);
        }
        Upd::Out(i, name, v) if name == "explicit-amount" => p.outputs_mut()[*i].amount = Some(1234 + *v),
        Upd::Out(i, name, v) if name == "explicit-asset" => p.outputs_mut()[*i].asset = Some(elements::AssetId::from_byte_array(pat32(*v as usize))),
        Upd::Out(i, name, v) => {
            let f = output_fields().into_iter().find(|f| f.name == name).expect("field");
            (f.set)(&mut p.outputs_mut()[*i], *v);
        }
        Upd::Glob(name, v) => {
            let f = global_fields().into_iter().find(|f| f.name == name).expect("field");
            (f.set)(p, *v);
        }
    }
}

fn uid(p: &Pset) -> Result<[u8; 32], String> {
    match guard(|| p.unique_id()) {
        Ok(Ok(t)) => Ok(t.to_byte_array()),
        Ok(Err(e)) => Err(format!("{:?}", e)),
        Err(pn) => Err(format!("panic: {}", pn)),
    }
}

fn bfs_unique_id(r: &Report, base: &Pset, base_name: &str, depth: usize) {
    let id0 = match uid(base) {
        Ok(x) => x,
        Err(e) => return r.violation("unique-id/base-error", json!({"base": base_name}), e),
    };
    // operation alphabet
    let mut ops: Vec<Upd> = Vec::new();
    let infs = input_fields();
    let outfs = output_fields();
    for i in 0..base.n_inputs() {
        for name in ID_NEUTRAL_INPUT {
            let is_map = infs.iter().find(|f| f.name == name).map(|f| f.map).unwrap_or(false);
            ops.push(Upd::In(i, name.to_string(), 0));
            if name == "sequence" || name == "final_script_sig" || is_map && i == 0 {
                ops.push(Upd::In(i, name.to_string(), 1)); // "changing", and second map entry
            }
        }
    }
    for j in 0..base.n_outputs() {
        for name in ID_NEUTRAL_OUTPUT {
            ops.push(Upd::Out(j, name.to_string(), 0));
        }
        if base.outputs()[j].blinding_key.is_none() && base.outputs()[j].amount_comm.is_none() {
            ops.push(Upd::Out(j, "mark-for-blinding".to_string(), 0));
            ops.push(Upd::Out(j, "mark-for-blinding".to_string(), 1));
        }
        let _ = &outfs;
    }
    for name in ID_NEUTRAL_GLOBAL {
        ops.push(Upd::Glob(name.to_string(), 0));
    }
    // explicit-value fields next to existing commitments (the commitment keeps defining the transaction)
    for i in 0..base.n_inputs() {
        if base.inputs()[i].issuance_value_comm.is_some() && base.inputs()[i].issuance_inflation_keys_comm.is_some() {
            for name in EXPLICIT_ON_BLINDED_INPUT {
                ops.push(Upd::In(i, name.to_string(), 0));
                ops.push(Upd::In(i, name.to_string(), 1));
            }
        }
    }
    for j in 0..base.n_outputs() {
        if base.outputs()[j].amount_comm.is_some() && base.outputs()[j].asset_comm.is_some() {
            ops.push(Upd::Out(j, "explicit-amount".to_string(), 0));
            ops.push(Upd::Out(j, "explicit-amount".to_string(), 1));
            ops.push(Upd::Out(j, "explicit-asset".to_string(), 0));
        }
    }
    // fingerprint = 128 bits of the serialized PSET (two independent FNV passes + length); the bytes themselves are not kept
    let key = |b: &[u8]| -> (u64, u64) {
        let mut h2: u64 = 0x9e37_79b9_7f4a_7c15 ^ b.len() as u64;
        for (i, x) in b.iter().enumerate().rev() {
            h2 = (h2 ^ (*x as u64).wrapping_add(i as u64)).wrapping_mul(0x0000_0100_0000_01b3).rotate_left(5);
        }
        (fnv(b), h2)
    };
    let mut seen: HashMap<(u64, u64), ()> = HashMap::new();
    // (history, state, unique id still equal to the initial one on this path)
    let mut frontier: VecDeque<(Vec<Upd>, Pset, bool)> = VecDeque::new();
    seen.insert(key(&serialize(base)), ());
    frontier.push_back((vec![], base.clone(), true));
    r.state(1);
    while let Some((hist, p, parent_ok)) = frontier.pop_front() {
        if hist.len() >= depth {
            continue;
        }
        for op in &ops {
            let mut q = p.clone();
            apply(&mut q, op);
            r.trans(1);
            let fp = key(&serialize(&q));
            if seen.contains_key(&fp) {
                continue;
            }
            seen.insert(fp, ());
            r.state(1);
            let mut h = hist.clone();
            h.push(op.clone());
            if h.len() <= 2 {
                check_extraction(r, &q, "updater-history");
            }
            let mut ok = true;
            match uid(&q) {
                Ok(id) if id == id0 => {}
                Ok(_) if !parent_ok => ok = false, // already reported where it first changed
                Ok(_) => {
                    ok = false;
                    let field = match op {
                        Upd::In(_, n, _) => format!("input.{}", n),
                        Upd::Out(_, n, _) => format!("output.{}", n),
                        Upd::Glob(n, _) => format!("global.{}", n),
                    };
                    r.violation(format!("unique-id/changed-by/{}", field), json!({"base": base_name, "history": h}), format!("unique_id changed after {:?}", op));
                }
                Err(e) => {
                    ok = false;
                    if parent_ok {
                        r.violation("unique-id/error", json!({"base": base_name, "history": h}), e)
                    }
                }
            }
            if h.len() < depth {
                frontier.push_back((h, q, ok)); // states at the depth bound are checked but never expanded: not kept
            }
        }
    }
    r.add_extra_count("unique_id_states", seen.len() as u64);
    // negative controls: identity-relevant changes must change the id
    let mut controls = 0;
    {
        let mut q = base.clone();
        if q.n_inputs() > 0 {
            q.inputs_mut()[0].previous_txid = Txid::from_byte_array(pat32(6));
            controls += 1;
            if uid(&q) == Ok(id0) {
                r.violation("unique-id/insensitive/prev_txid", json!({"base": base_name}), "changing the spent txid keeps the unique id");
            }
            let mut q = base.clone();
            q.inputs_mut()[0].previous_output_index ^= 1;
            controls += 1;
            if uid(&q) == Ok(id0) {
                r.violation("unique-id/insensitive/prev_vout", json!({"base": base_name}), "changing the spent index keeps the unique id");
            }
        }
        if base.n_outputs() > 0 {
            let mut q = base.clone();
            if q.outputs()[0].amount_comm.is_some() {
                q.outputs_mut()[0].amount_comm = Some(comm(7)); // the commitment defines the transaction there
            } else {
                q.outputs_mut()[0].amount = Some(999_999);
            }
            controls += 1;
            if uid(&q) == Ok(id0) {
                r.violation("unique-id/insensitive/output-amount", json!({"base": base_name}), "changing an output amount keeps the unique id");
            }
            let mut q = base.clone();
            q.outputs_mut()[0].script_pubkey = Script::from(vec![0x51]);
            controls += 1;
            if uid(&q) == Ok(id0) {
                r.violation("unique-id/insensitive/output-script", json!({"base": base_name}), "changing an output script keeps the unique id");
            }
        }
        let mut q = base.clone();
        q.global.tx_data.fallback_locktime = Some(LockTime::from_consensus(77));
        controls += 1;
        if uid(&q) == Ok(id0) {
            r.violation("unique-id/insensitive/fallback-locktime", json!({"base": base_name}), "changing the (unconstrained) fallback lock time keeps the unique id");
        }
    }
    r.add_extra_count("unique_id_negative_controls", controls);
    r.nontrivial(fnv(base_name.as_bytes()));
}

// ------------------------------------------------------------------------------------------------
// (c) lock time

const TIMES: [u32; 3] = [500_000_000, 500_000_001, 1_700_000_000];
const HEIGHTS: [u32; 3] = [1, 100, 499_999_999];

/// BIP370, transcribed: None = error
fn bip370(reqs: &[(Option<u32>, Option<u32>)], fallback: Option<u32>) -> Option<u32> {
    let constraining: Vec<&(Option<u32>, Option<u32>)> = reqs.iter().filter(|(t, h)| t.is_some() || h.is_some()).collect();
    if constraining.is_empty() {
        return Some(fallback.unwrap_or(0));
    }
    let height_ok = constraining.iter().all(|(_, h)| h.is_some());
    let time_ok = constraining.iter().all(|(t, _)| t.is_some());
    if height_ok {
        return constraining.iter().map(|(_, h)| h.unwrap()).max();
    }
    if time_ok {
        return constraining.iter().map(|(t, _)| t.unwrap()).max();
    }
    None
}

fn locktime_product(r: &Report) {
    // per input: none (1) + time (3) + height (3) + both (9) = 16 options
    let mut opts: Vec<(Option<u32>, Option<u32>)> = vec![(None, None)];
    for t in TIMES {
        opts.push((Some(t), None));
    }
    for h in HEIGHTS {
        opts.push((None, Some(h)));
    }
    for t in TIMES {
        for h in HEIGHTS {
            opts.push((Some(t), Some(h)));
        }
    }
    let fallbacks = [None, Some(7u32), Some(500_000_123u32)];
    let mut total = 0u64;
    for n in 0..=4usize {
        let combos = crate::engine::product_vec(&vec![opts.len(); n]);
        total += combos.len() as u64 * 3;
        combos.par_iter().for_each(|c| {
            let reqs: Vec<(Option<u32>, Option<u32>)> = c.iter().map(|&i| opts[i]).collect();
            for fb in fallbacks {
                r.eval(1);
                r.trans(1);
                let mut p = Pset::new_v2();
                p.global.tx_data.fallback_locktime = fb.map(LockTime::from_consensus);
                for (i, (t, h)) in reqs.iter().enumerate() {
                    let mut inp = Input::from_prevout(OutPoint::new(Txid::from_byte_array(pat32(i)), i as u32));
                    inp.required_time_locktime = t.map(|x| elements::locktime::Time::from_consensus(x).unwrap());
                    inp.required_height_locktime = h.map(|x| elements::locktime::Height::from_consensus(x).unwrap());
                    p.add_input(inp);
                }
                let exp = bip370(&reqs, fb);
                let got = guard(|| p.locktime());
                let case = || json!({"requirements_time_height": reqs, "fallback": fb});
                match got {
                    Err(pn) => r.violation("locktime/panic", case(), pn),
                    Ok(res) => {
                        r.trace(1);
                        let g = res.as_ref().ok().map(|l| l.to_consensus_u32());
                        if g != exp {
                            let both_possible = reqs.iter().filter(|(t, h)| t.is_some() || h.is_some()).all(|(t, h)| t.is_some() && h.is_some()) && reqs.iter().any(|(t, _)| t.is_some());
                            let class = if both_possible {
                                "locktime/prefers-time-when-both-possible"
                            } else if exp.is_none() {
                                "locktime/no-error-when-no-common-kind"
                            } else if g.is_none() {
                                "locktime/error-when-a-kind-is-common"
                            } else {
                                "locktime/wrong-value"
                            };
                            r.violation(class, case(), format!("locktime() = {:?}, BIP370 = {:?}", g, exp));
                        }
                        r.outcome(match (exp, reqs.is_empty()) {
                            (None, _) => "conflict",
                            (Some(x), _) if x >= 500_000_000 => "time",
                            _ => "height-or-fallback",
                        });
                        // the extracted transaction carries exactly that lock time
                        if n > 0 && n <= 2 {
                            if let (Some(e), Ok(tx)) = (exp, p.extract_tx()) {
                                if tx.lock_time.to_consensus_u32() != e && g == exp {
                                    r.violation("locktime/extract-differs", case(), "extract_tx lock time differs from locktime()");
                                }
                            }
                        }
                    }
                }
            }
        });
    }
    r.set_extra("locktime_assignments", json!(total));
    r.state(total);
}

pub fn run(r: &Report) {
    let thorough = r.tier.thorough();
    r.set_rule(
        "(a) every well-formed transaction of the structural generators (witness-presence classes, 0..3 x 0..3 shapes over 6 input kinds incl. \
         the null outpoint, the output field product, sighash shapes, blinder outputs): extract_tx(from_tx(t)) == t, extraction twice, extraction \
         == field-by-field reading; (a2) every PSET of the C07 generator (hand-built fields incl. flagged indices, explicit values next to commitments, blinded outputs) and every state of (b) up to depth 2: extraction twice, == field-by-field reading with the BIP370 lock time, unchanged by a serialization hop, Output::to_txout() == extracted output; (b) breadth-first search from 6 base PSETs over updater/signer/finalizer operations (24 input field \
         families incl. sequence and final_script_sig set AND changed, 9 output families, 4 global) at every position, depth <= 3 (4), states \
         de-duplicated by serialized bytes, invariant unique_id == initial id, plus negative controls; (c) complete product of lock-time \
         requirement assignments {none, time(3), height(3), both(9)}^n, n = 0..4, x 3 fallbacks against a transcription of BIP370. \
         non-trivial = distinct transactions round-tripped + base PSETs searched",
    );
    // (a)
    let mut txs = gen::txs_witness_classes();
    txs.extend(gen::txs_shapes());
    txs.extend(gen::txs_input_variants());
    txs.extend(gen::txs_degenerate_witness());
    for c in crate::props::c03::sig_cases(false).iter().step_by(3) {
        txs.push(c.tx.clone());
    }
    let outs = gen::txouts_small();
    for (k, o) in outs.iter().enumerate() {
        txs.push(RTx { version: 2, lock_time: 0, ins: vec![gen::txin_rep(gen::IN_KINDS[k % 6], 0)], outs: vec![o.clone()] });
    }
    for t in crate::props::c04::blinded_samples(r.seed, 4) {
        txs.push(from_tx(&t));
    }
    let txs: Vec<RTx> = txs.into_iter().filter(well_formed).collect();
    r.set_extra("roundtrip_transactions", json!(txs.len()));
    txs.par_iter().for_each(|t| check_roundtrip(r, t));
    // (a2) PSETs not produced by from_tx: the C07 generator (covering rows, single fields, tap trees, length boundaries)
    let gen_psets = crate::props::c07::generated_psets(thorough);
    r.set_extra("extraction_psets", json!(gen_psets.len() + 1));
    gen_psets.par_iter().for_each(|(o, p)| check_extraction(r, p, o));
    check_extraction(r, &blinded_base(), "blinded-base");
    // (b)
    let depth = r.tier.pick(3usize, 4);
    let bases: Vec<(String, Pset)> = vec![
        ("1in1out".to_string(), base_pset(1, 1, 0)),
        ("1in2out/issuance".to_string(), base_pset(1, 2, 1)),
        ("1in1out/pegin".to_string(), base_pset(1, 1, 2)),
        ("2in1out".to_string(), base_pset(2, 1, 0)),
        ("2in2out/issuance".to_string(), base_pset(2, 2, 1)),
        ("from_tx".to_string(), Pset::from_tx(to_tx(&RTx { version: 2, lock_time: 5, ins: vec![gen::txin_rep(gen::InKind::Plain, 0)], outs: vec![gen::txout_rep(0)] }))),
        ("blinded-issuance+blinded-outputs".to_string(), blinded_base()),
    ];
    let bases: Vec<(String, Pset)> = if thorough { bases } else { bases.into_iter().enumerate().map(|(i, b)| (i, b)).filter(|(i, _)| *i != 4).map(|(_, b)| b).collect() };
    bases.par_iter().for_each(|(n, p)| {
        let d = if p.n_inputs() + p.n_outputs() >= 4 { depth - 1 } else { depth };
        bfs_unique_id(r, p, n, d)
    });
    // (c)
    locktime_product(r);
    r.sample(json!({"locktime_case": {"requirements_time_height": [[500000000, 100], [null, 1]], "fallback": null, "bip370": 100}}));
    r.sample(json!({"unique_id_history_example": [Upd::In(0, "sequence".into(), 1), Upd::In(0, "final_script_sig".into(), 0), Upd::Out(0, "tap_tree".into(), 0)]}));
    r.assume("PSET field values from two variants each; transactions from the structural generators (payload menus)");
    r.assume("BIP370 lock-time rule transcribed from the BIP text: fallback when unconstrained; kind supported by all constraining inputs; height preferred; maximum value; error otherwise");
}

pub fn replay(case: &Value) -> String {
    let r = Report::new("C08", crate::engine::Tier::Quick, 0);
    if let Some(h) = case["tx"].as_str() {
        match crate::oracle::parse::parse_tx(&crate::engine::unhex(h)) {
            Some(t) => check_roundtrip(&r, &t),
            None => return "cannot parse case".into(),
        }
    } else if case.get("requirements_time_height").is_some() {
        let reqs: Vec<(Option<u32>, Option<u32>)> = serde_json::from_value(case["requirements_time_height"].clone()).unwrap_or_default();
        let fb: Option<u32> = serde_json::from_value(case["fallback"].clone()).unwrap_or(None);
        let mut p = Pset::new_v2();
        p.global.tx_data.fallback_locktime = fb.map(LockTime::from_consensus);
        for (i, (t, h)) in reqs.iter().enumerate() {
            let mut inp = Input::from_prevout(OutPoint::new(Txid::from_byte_array(pat32(i)), i as u32));
            inp.required_time_locktime = t.map(|x| elements::locktime::Time::from_consensus(x).unwrap());
            inp.required_height_locktime = h.map(|x| elements::locktime::Height::from_consensus(x).unwrap());
            p.add_input(inp);
        }
        let g = p.locktime().ok().map(|l| l.to_consensus_u32());
        let e = bip370(&reqs, fb);
        return if g == e { format!("HOLDS locktime {:?}", g) } else { format!("VIOLATES locktime() = {:?}, BIP370 = {:?}", g, e) };
    } else if let Some(h) = case.get("history") {
        let hist: Vec<Upd> = serde_json::from_value(h.clone()).unwrap_or_default();
        let name = case["base"].as_str().unwrap_or("");
        let mut p = match name {
            "1in1out" => base_pset(1, 1, 0),
            "1in2out/issuance" => base_pset(1, 2, 1),
            "1in1out/pegin" => base_pset(1, 1, 2),
            "2in1out" => base_pset(2, 1, 0),
            "2in2out/issuance" => base_pset(2, 2, 1),
            "blinded-issuance+blinded-outputs" => blinded_base(),
            _ => Pset::from_tx(to_tx(&RTx { version: 2, lock_time: 5, ins: vec![gen::txin_rep(gen::InKind::Plain, 0)], outs: vec![gen::txout_rep(0)] })),
        };
        let id0 = uid(&p);
        for u in &hist {
            apply(&mut p, u);
        }
        let id1 = uid(&p);
        return if id0 == id1 { "HOLDS unique id unchanged".into() } else { format!("VIOLATES unique id {:?} -> {:?}", id0.map(|x| hex(&x)), id1.map(|x| hex(&x))) };
    }
    let v = r.take_violations();
    if v.is_empty() { "HOLDS".into() } else { format!("VIOLATES {} ({})", v[0].1.class, v[0].1.detail) }
}

#[allow(dead_code)]
fn _unused(_: Transaction) {}
