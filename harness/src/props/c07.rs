//! C07 — PSET serialization round-trips and re-serialization is a fixpoint.
//!
//! value side: well-formed PSETs from a strength-2 covering of all optional/map fields (plus the
//! extremes and every single field), map sizes 0/1/2, 0..2 inputs x 0..2 outputs, output blinding
//! modes, tap trees of every shape with <= 5 leaves, ELIP-100/102 accessors.
//! byte side: for every encoding: all orderings of the pairs of each small map (adjacent
//! transpositions otherwise), duplication / deletion of each pair, count +-1, corrupted preimages,
//! and the 1-deviation neighbourhood; oracle: accepted => canonical fixpoint.

use crate::engine::{dev, fnv, guard, hex_short, permutations, Report};
use crate::gen::{self, pat32};
use crate::psetgen::*;
use elements::encode::{deserialize, serialize};
use elements::pset::{Output, PartiallySignedTransaction as Pset};
use elements::AssetId;
use rayon::prelude::*;
use serde_json::{json, Value};
use std::str::FromStr;

/// split a serialized PSET into its maps of raw (key, value) pairs (own mini-parser)
pub fn split_maps(b: &[u8]) -> Option<Vec<Vec<(Vec<u8>, Vec<u8>)>>> {
    let mut c = crate::oracle::parse::Cur::new(b);
    if c.take(5)? != b"pset\xff" {
        return None;
    }
    let mut maps = Vec::new();
    while c.p < b.len() {
        let mut pairs = Vec::new();
        loop {
            let kl = c.varint()?;
            if kl == 0 {
                break;
            }
            let k = c.take(kl as usize)?.to_vec();
            let vl = c.varint()?;
            let v = c.take(vl as usize)?.to_vec();
            pairs.push((k, v));
        }
        maps.push(pairs);
    }
    Some(maps)
}

pub fn join_maps(maps: &[Vec<(Vec<u8>, Vec<u8>)>]) -> Vec<u8> {
    let mut out = b"pset\xff".to_vec();
    for m in maps {
        for (k, v) in m {
            crate::oracle::model::bytes(&mut out, k);
            crate::oracle::model::bytes(&mut out, v);
        }
        out.push(0);
    }
    out
}

/// standard base64 with padding (own encoder: the text form of a byte string, built without the crate)
pub fn base64(b: &[u8]) -> String {
    const T: &[u8; 64] = b"ABCDEFGHIJKLMNOPQRSTUVWXYZabcdefghijklmnopqrstuvwxyz0123456789+/";
    let mut s = String::with_capacity((b.len() + 2) / 3 * 4);
    for c in b.chunks(3) {
        let n = (c[0] as u32) << 16 | (*c.get(1).unwrap_or(&0) as u32) << 8 | *c.get(2).unwrap_or(&0) as u32;
        s.push(T[(n >> 18) as usize & 63] as char);
        s.push(T[(n >> 12) as usize & 63] as char);
        s.push(if c.len() > 1 { T[(n >> 6) as usize & 63] as char } else { '=' });
        s.push(if c.len() > 2 { T[n as usize & 63] as char } else { '=' });
    }
    s
}

/// BIP174 preimage pairs (input key types 0x0a RIPEMD160, 0x0b SHA256, 0x0c HASH160, 0x0d HASH256): the key data of an
/// ACCEPTED or library-produced pair must be the hash of the value in the byte order the BIP defines (the digest as the
/// hash function outputs it). SHA-256 based ones use the harness's own SHA-256.
fn preimage_pair_ok(key: &[u8], value: &[u8]) -> bool {
    use elements::hashes::{hash160, ripemd160, Hash as _};
    if key.is_empty() {
        return true;
    }
    let h: Vec<u8> = match key[0] {
        0x0a => ripemd160::Hash::hash(value).to_byte_array().to_vec(),
        0x0b => crate::oracle::sha256::sha256(value).to_vec(),
        0x0c => hash160::Hash::hash(value).to_byte_array().to_vec(),
        0x0d => crate::oracle::sha256::sha256d(value).to_vec(),
        _ => return true,
    };
    key[1..] == h[..]
}

/// Oracle on one byte string. `must_reject`: Some(reason) if the mutation class must be refused.
pub fn check_bytes(r: &Report, b: &[u8], origin: &str, must_reject: Option<&str>) {
    r.trans(1);
    crate::engine::crash::crumb("pset-decode", b);
    let res = guard(|| -> Result<bool, String> {
        // the base64 text entry point must agree with the byte decoder on acceptance and on the value
        let via_text = Pset::from_str(&base64(b)).ok();
        let p = match deserialize::<Pset>(b) {
            Err(_) => {
                if via_text.is_some() {
                    return Err("base64 text form accepted although the byte decoder rejects the same bytes".into());
                }
                return Ok(false);
            }
            Ok(p) => p,
        };
        if via_text.as_ref() != Some(&p) {
            return Err("base64 text form rejected or decoded differently from the same bytes".into());
        }
        // accepted preimage pairs are hash -> preimage in BIP174 byte order
        if let Some(maps) = split_maps(b) {
            let n_in = maps.first().and_then(|g| g.iter().find(|(k, _)| k == &vec![0x04u8])).map(|(_, v)| v.first().copied().unwrap_or(0) as usize).unwrap_or(0);
            for m in maps.iter().skip(1).take(n_in) {
                for (k, v) in m {
                    if !preimage_pair_ok(k, v) {
                        return Err(format!("preimage pair accepted whose key is not the hash of its value (key type {:02x})", k[0]));
                    }
                }
            }
        }
        let b1 = serialize(&p);
        let p1 = deserialize::<Pset>(&b1).map_err(|e| format!("canonical re-encoding is rejected: {:?}", e))?;
        if p1 != p {
            return Err("decode(encode(decode(b))) != decode(b)".into());
        }
        let b2 = serialize(&p1);
        if b2 != b1 {
            let off = b1.iter().zip(b2.iter()).position(|(x, y)| x != y).unwrap_or(b1.len().min(b2.len()));
            return Err(format!("re-encoding is not a fixpoint: second re-encoding differs at byte {} ({} vs {} bytes)", off, b1.len(), b2.len()));
        }
        Ok(true)
    });
    let case = || json!({"pset": crate::engine::hex(b), "origin": origin});
    match res {
        Err(p) => r.violation(format!("bytes/panic@{}", crate::engine::panic_site(&p)), case(), p),
        Ok(Err(e)) => r.violation(format!("bytes/{}/{}", origin, e.split(':').next().unwrap_or("")), case(), e),
        Ok(Ok(acc)) => {
            r.acc(acc);
            if acc {
                if let Some(why) = must_reject {
                    r.violation(format!("bytes/accepted-{}", why), case(), format!("a PSET with {} was accepted", why));
                }
            }
        }
    }
}

/// value-side oracle
pub fn check_value(r: &Report, p: &Pset, origin: &str) -> Option<Vec<u8>> {
    r.eval(1);
    r.state(1);
    let res = guard(|| -> Result<Vec<u8>, String> {
        let b = serialize(p);
        let q = deserialize::<Pset>(&b).map_err(|e| format!("decode(encode(p)) failed: {:?}", e))?;
        if &q != p {
            return Err("decode(encode(p)) != p".into());
        }
        if serialize(&q) != b {
            return Err("encode(decode(encode(p))) != encode(p)".into());
        }
        let s = p.to_string();
        let q2 = Pset::from_str(&s).map_err(|e| format!("base64 form rejected: {:?}", e))?;
        if &q2 != p {
            return Err("base64 round trip differs".into());
        }
        // the same round trip under environment deviations (short writes / short reads / a writer that fills up)
        if b.len() <= 4000 {
            crate::props::c01::environment_deviations(p, &b).map_err(|e| format!("environment: {}", e))?;
        }
        Ok(b)
    });
    match res {
        Err(pn) => {
            r.violation(format!("value/{}/panic@{}", origin, crate::engine::panic_site(&pn)), json!({"origin": origin, "pset_debug": format!("{:?}", p).chars().take(1500).collect::<String>()}), pn);
            None
        }
        Ok(Err(e)) => {
            let hexed = guard(|| crate::engine::hex(&serialize(p))).unwrap_or_default();
            r.violation(format!("value/{}/{}", origin, e.split(':').next().unwrap_or("")), json!({"origin": origin, "pset": hexed}), e);
            None
        }
        Ok(Ok(b)) => {
            r.trace(1);
            r.nontrivial(fnv(&b));
            Some(b)
        }
    }
}

/// output blinding modes respecting the format's acceptance rules
pub const OUT_MODES: usize = 7;

pub fn apply_out_mode(o: &mut Output, mode: usize, v: u64) {
    match mode % OUT_MODES {
        0 => {}
        1 => {
            // marked for blinding, not yet blinded
            o.blinding_key = Some(btc_pk(70 + v));
            o.blinder_index = Some(0);
        }
        2 => {
            // fully blinded, explicit values kept alongside with their proofs
            o.blinding_key = Some(btc_pk(70 + v));
            o.blinder_index = Some(v as u32);
            o.amount_comm = Some(comm(v));
            o.asset_comm = Some(generator(v));
            o.value_rangeproof = Some(rp(v));
            o.asset_surjection_proof = Some(sp(v));
            o.ecdh_pubkey = Some(btc_pk(80 + v));
            o.blind_value_proof = Some(rp(v + 1));
            o.blind_asset_proof = Some(sp(v + 1));
        }
        3 => {
            // commitments only (explicit amount / asset removed)
            o.amount = None;
            o.asset = None;
            o.amount_comm = Some(comm(v + 1));
            o.asset_comm = Some(generator(v + 1));
        }
        4 => {
            // mixed: explicit amount, committed asset only
            o.asset = None;
            o.asset_comm = Some(generator(v + 2));
        }
        5 => {
            // mixed: committed amount only, explicit asset
            o.amount = None;
            o.amount_comm = Some(comm(v + 2));
        }
        _ => {
            // marked for blinding with an uncompressed blinding key
            o.blinding_key = Some(btc_pk_uncompressed(70 + v));
            o.blinder_index = Some(1);
        }
    }
}

/// strength-2 covering rows for k binary factors: all-0, all-1, and for each bit of the factor index
/// the row "factor i = bit b of i" and its complement (any two factors differ in some bit).
pub fn covering_rows(k: usize) -> Vec<Vec<bool>> {
    let bits = (usize::BITS - (k.max(2) - 1).leading_zeros()) as usize;
    let mut rows = vec![vec![false; k], vec![true; k]];
    for b in 0..bits {
        let row: Vec<bool> = (0..k).map(|i| (i >> b) & 1 == 1).collect();
        rows.push(row.iter().map(|x| !x).collect());
        rows.push(row);
    }
    rows
}

pub fn generated_psets(thorough: bool) -> Vec<(String, Pset)> {
    let inf = input_fields();
    let outf = output_fields();
    let glf = global_fields();
    let k = inf.len() + outf.len() + glf.len();
    let rows = covering_rows(k);
    let mut out: Vec<(String, Pset)> = Vec::new();
    let shapes: Vec<(usize, usize)> = vec![(0, 0), (1, 0), (0, 1), (1, 1), (2, 1), (1, 2), (2, 2)];
    for (si, &(n_in, n_out)) in shapes.iter().enumerate() {
        for variant in 0..3usize {
            if !thorough && (si + variant) % 2 == 1 && n_in + n_out < 4 && n_in + n_out > 0 {
                continue;
            }
            for (ri, row) in rows.iter().enumerate() {
                for map_size in 1..=2u64 {
                    let mut p = base_pset(n_in, n_out, variant);
                    let out_mode = (ri + variant + si) % OUT_MODES;
                    for (fi, fld) in glf.iter().enumerate() {
                        if row[fi] {
                            for v in 0..(if fld.map { map_size } else { 1 }) {
                                (fld.set)(&mut p, v + ri as u64 % 2);
                            }
                        }
                    }
                    for (ii, inp) in p.inputs_mut().iter_mut().enumerate() {
                        for (fi, fld) in inf.iter().enumerate() {
                            if row[glf.len() + fi] {
                                for v in 0..(if fld.map { map_size } else { 1 }) {
                                    (fld.set)(inp, v + ii as u64);
                                }
                            }
                        }
                    }
                    for (oi, o) in p.outputs_mut().iter_mut().enumerate() {
                        let mode = (out_mode + oi * 3) % OUT_MODES;
                        for (fi, fld) in outf.iter().enumerate() {
                            // in "marked" modes the five blinding fields are all-or-none: skip the free setters
                            let blinding_field = matches!(fld.name, "value_rangeproof" | "asset_surjection_proof" | "ecdh_pubkey");
                            if row[glf.len() + inf.len() + fi] && !((mode == 1 || mode == 2 || mode == 6) && blinding_field) {
                                for v in 0..(if fld.map { map_size } else { 1 }) {
                                    (fld.set)(o, v + oi as u64);
                                }
                            }
                        }
                        apply_out_mode(o, mode, oi as u64);
                    }
                    out.push((format!("covering/{}in{}out/v{}/row{}/m{}", n_in, n_out, variant, ri, map_size), p));
                }
            }
        }
    }
    // every single field alone on a 1x1 base, both value variants
    for v in 0..2u64 {
        for fld in &glf {
            let mut p = base_pset(1, 1, 0);
            (fld.set)(&mut p, v);
            out.push((format!("single/global.{}", fld.name), p));
        }
        for fld in &inf {
            let mut p = base_pset(1, 1, 0);
            (fld.set)(&mut p.inputs_mut()[0], v);
            out.push((format!("single/input.{}", fld.name), p));
        }
        for fld in &outf {
            let mut p = base_pset(1, 1, 0);
            (fld.set)(&mut p.outputs_mut()[0], v);
            out.push((format!("single/output.{}", fld.name), p));
        }
    }
    // tap trees of every shape with <= 5 leaves, distinct and duplicate scripts
    for n in 1..=5usize {
        for sh in valid_shapes(n) {
            for dup in [false, true] {
                let mut b = elements::taproot::TaprootBuilder::new();
                for (i, &d) in sh.iter().enumerate() {
                    let script = elements::Script::from(vec![0x51 + if dup && i > 0 { 0 } else { i as u8 }, 0x75]);
                    let ver = if i % 2 == 1 && !dup { elements::taproot::LeafVersion::from_u8(0xc0).unwrap() } else { elements::taproot::LeafVersion::default() };
                    b = b.add_leaf_with_ver(d, script, ver).unwrap();
                }
                let mut p = base_pset(1, 1, 0);
                p.outputs_mut()[0].tap_tree = Some(elements::pset::TapTree::from_inner(b).unwrap());
                p.outputs_mut()[0].tap_internal_key = Some(xonly(1));
                out.push((format!("taptree/{}leaves{}", n, if dup { "/dup" } else { "" }), p));
            }
        }
    }
    // byte-vector lengths on both sides of every compact-size boundary, in every field codec that frames a byte vector
    // (tap-tree leaf scripts, tap_scripts, scripts, final witness items, signatures, proprietary / unknown values and keys)
    for &len in &[0usize, 1, 75, 76, 252, 253, 254, 255, 256, 65535, 65536] {
        let blob = |salt: u8| -> Vec<u8> { (0..len).map(|i| (i as u8).wrapping_mul(31).wrapping_add(salt)).collect() };
        let leaf = |d: usize, sc: Vec<u8>| (d, elements::Script::from(sc), elements::taproot::LeafVersion::default());
        // the long script as the only leaf, as the first of two and as the last of three
        for (tag, leaves) in [
            ("only", vec![leaf(0, blob(1))]),
            ("first", vec![leaf(1, blob(2)), leaf(1, vec![0x51])]),
            ("last", vec![leaf(1, vec![0x52]), leaf(2, vec![0x53, 0x54]), leaf(2, blob(3))]),
        ] {
            let mut b = elements::taproot::TaprootBuilder::new();
            for (d, sc, v) in leaves {
                b = b.add_leaf_with_ver(d, sc, v).unwrap();
            }
            let mut p = base_pset(1, 1, 0);
            p.outputs_mut()[0].tap_tree = Some(elements::pset::TapTree::from_inner(b).unwrap());
            out.push((format!("lengths/taptree-leaf-{}/{}", tag, len), p));
        }
        let mut p = base_pset(1, 1, 0);
        {
            let i = &mut p.inputs_mut()[0];
            i.redeem_script = Some(elements::Script::from(blob(4)));
            i.witness_script = Some(elements::Script::from(blob(5)));
            i.final_script_sig = Some(elements::Script::from(blob(6)));
            i.final_script_witness = Some(vec![blob(7), vec![], blob(8)]);
            i.tap_scripts.insert(crate::psetgen::control_block(0), (elements::Script::from(blob(9)), elements::taproot::LeafVersion::default()));
            i.partial_sigs.insert(crate::psetgen::btc_pk(1), blob(10));
            i.proprietary.insert(crate::psetgen::prop_key(1), blob(11));
            i.unknown.insert(elements::pset::raw::Key { type_value: 0xf0, key: blob(12) }, blob(13));
        }
        out.push((format!("lengths/input-fields/{}", len), p));
        let mut p = base_pset(1, 1, 0);
        {
            let o = &mut p.outputs_mut()[0];
            o.redeem_script = Some(elements::Script::from(blob(14)));
            o.witness_script = Some(elements::Script::from(blob(15)));
            o.proprietary.insert(elements::pset::raw::ProprietaryKey { prefix: blob(16), subtype: 7, key: blob(17) }, blob(18));
            o.unknown.insert(elements::pset::raw::Key { type_value: 0xf1, key: blob(19) }, blob(20));
        }
        p.global.proprietary.insert(elements::pset::raw::ProprietaryKey { prefix: b"vendor".to_vec(), subtype: 1, key: blob(21) }, blob(22));
        p.global.unknown.insert(elements::pset::raw::Key { type_value: 0xf2, key: blob(23) }, blob(24));
        out.push((format!("lengths/output+global-fields/{}", len), p));
    }
    // ELIP-100 / ELIP-102 metadata through the accessors
    {
        use elements::pset::elip100::{AssetMetadata, TokenMetadata};
        let mut p = base_pset(1, 1, 1);
        let aid = AssetId::from_byte_array(pat32(3));
        let meta = AssetMetadata::new("{\"name\":\"x\"}".to_string(), elements::OutPoint::new(elements::Txid::from_byte_array(pat32(1)), 4));
        p.add_asset_metadata(aid, &meta);
        p.add_token_metadata(AssetId::from_byte_array(pat32(4)), &TokenMetadata::new(aid, true));
        let abf = elements::confidential::AssetBlindingFactor::from_slice(gen::tweak(5000).as_ref()).unwrap();
        p.inputs_mut()[0].set_abf(abf);
        p.outputs_mut()[0].set_abf(abf);
        out.push(("elip100+102".into(), p));
    }
    // PSETs produced by the library itself
    for t in crate::props::c04::blinded_samples(0, 3) {
        out.push(("from_tx/blinded".into(), Pset::from_tx(t)));
    }
    for c in crate::props::c03::sig_cases(false).iter().step_by(211) {
        out.push(("from_tx".into(), Pset::from_tx(crate::oracle::model::to_tx(&c.tx))));
    }
    // PSETs produced by the combiner: a PSET merged with itself, and two descendants of one base (each with scalars
    // pushed in a different order, partial signatures, proprietary pairs) merged in both directions
    {
        let mut merged: Vec<(String, Pset)> = Vec::new();
        for (o, p) in out.iter().filter(|(o, _)| o.starts_with("covering") || o.starts_with("single")).step_by(if thorough { 3 } else { 17 }) {
            let mut q = p.clone();
            if q.merge(p.clone()).is_ok() {
                merged.push((format!("merged/self/{}", o.split('/').next().unwrap_or("")), q));
            }
        }
        let base = base_pset(2, 2, 0);
        let mut d1 = base.clone();
        let mut d2 = base.clone();
        for v in [0u64, 1, 2] {
            d1.global.scalars.push(gen::tweak(4100 + v));
        }
        for v in [2u64, 0, 3] {
            d2.global.scalars.push(gen::tweak(4100 + v));
        }
        d1.inputs_mut()[0].partial_sigs.insert(crate::psetgen::btc_pk(1), vec![0x30, 1]);
        d2.inputs_mut()[1].partial_sigs.insert(crate::psetgen::btc_pk(2), vec![0x30, 2]);
        d2.global.proprietary.insert(crate::psetgen::prop_key(9), vec![9]);
        for (name, a, b) in [("merged/d1<-d2", &d1, &d2), ("merged/d2<-d1", &d2, &d1), ("merged/d1<-d1", &d1, &d1), ("merged/base<-d2", &base, &d2)] {
            let mut q = a.clone();
            if q.merge(b.clone()).is_ok() {
                let mut q2 = q.clone();
                let _ = q2.merge(a.clone());
                merged.push((name.to_string(), q));
                merged.push((format!("{}<-again", name), q2));
            }
        }
        out.extend(merged);
    }
    out
}

pub fn valid_shapes(n: usize) -> Vec<Vec<usize>> {
    fn rec(n: usize, d: usize) -> Vec<Vec<usize>> {
        if n == 1 {
            return vec![vec![d]];
        }
        let mut out = Vec::new();
        for l in 1..n {
            for a in rec(l, d + 1) {
                for b in rec(n - l, d + 1) {
                    let mut v = a.clone();
                    v.extend(b);
                    out.push(v);
                }
            }
        }
        out
    }
    rec(n, 0)
}

const MANDATORY_GLOBAL: [u8; 4] = [0x02, 0x04, 0x05, 0xfb];

fn byte_side(r: &Report, b: &[u8], full: bool) {
    let maps = match split_maps(b) {
        Some(m) => m,
        None => {
            r.machinery("own PSET splitter cannot parse a library encoding");
            return;
        }
    };
    if join_maps(&maps) != b {
        r.machinery("own PSET splitter/joiner does not reproduce a library encoding");
        return;
    }
    let n_in = maps[0].iter().find(|(k, _)| k == &vec![0x04u8]).map(|(_, v)| v[0] as usize).unwrap_or(0);
    for (mi, m) in maps.iter().enumerate() {
        // orderings
        if m.len() >= 2 {
            if m.len() <= 4 {
                for perm in permutations(m.len()) {
                    if perm.iter().enumerate().all(|(i, &x)| i == x) {
                        continue;
                    }
                    let mut mm = maps.clone();
                    mm[mi] = perm.iter().map(|&i| m[i].clone()).collect();
                    check_bytes(r, &join_maps(&mm), "pair-reordering", None);
                }
            } else {
                for i in 0..m.len() - 1 {
                    let mut mm = maps.clone();
                    mm[mi].swap(i, i + 1);
                    check_bytes(r, &join_maps(&mm), "pair-reordering", None);
                }
                let mut mm = maps.clone();
                mm[mi].reverse();
                check_bytes(r, &join_maps(&mm), "pair-reordering", None);
            }
        }
        for i in 0..m.len() {
            // duplication of each pair (adjacent and at the end)
            let mut mm = maps.clone();
            mm[mi].insert(i, m[i].clone());
            check_bytes(r, &join_maps(&mm), "pair-duplicated", Some("a duplicate key"));
            let mut mm = maps.clone();
            mm[mi].push(m[i].clone());
            check_bytes(r, &join_maps(&mm), "pair-duplicated", Some("a duplicate key"));
            // same key, different value
            let mut mm = maps.clone();
            let mut dupl = m[i].clone();
            dupl.1.push(0);
            mm[mi].push(dupl);
            check_bytes(r, &join_maps(&mm), "key-duplicated", Some("a duplicate key"));
            // deletion of each pair: mandatory ones must make the PSET invalid
            let key = &m[i].0;
            let mandatory = if mi == 0 {
                key.len() == 1 && MANDATORY_GLOBAL.contains(&key[0])
            } else if mi <= n_in {
                key.len() == 1 && (key[0] == 0x0e || key[0] == 0x0f)
            } else {
                key.len() == 1 && key[0] == 0x04
            };
            let mut mm = maps.clone();
            mm[mi].remove(i);
            check_bytes(r, &join_maps(&mm), "pair-deleted", if mandatory { Some("a missing mandatory field") } else { None });
            // preimage corruption
            if mi >= 1 && mi <= n_in && !key.is_empty() && (0x0a..=0x0d).contains(&key[0]) {
                let mut mm = maps.clone();
                let last = mm[mi][i].1.len() - 1;
                mm[mi][i].1[last] ^= 1;
                check_bytes(r, &join_maps(&mm), "preimage-corrupted", Some("an invalid hash preimage"));
                let mut mm = maps.clone();
                mm[mi][i].0[1] ^= 1;
                check_bytes(r, &join_maps(&mm), "preimage-corrupted", Some("an invalid hash preimage"));
            }
        }
    }
    // count +-1
    for (key, what) in [(0x04u8, "input"), (0x05, "output")] {
        for delta in [-1i64, 1] {
            let mut mm = maps.clone();
            if let Some(pair) = mm[0].iter_mut().find(|(k, _)| k == &vec![key]) {
                let cur = pair.1[0] as i64;
                if cur + delta < 0 {
                    continue;
                }
                pair.1 = vec![(cur + delta) as u8];
                check_bytes(r, &join_maps(&mm), "count-changed", Some(if what == "input" { "an inconsistent input count" } else { "an inconsistent output count" }));
            }
        }
    }
    // a whole map removed / appended
    if maps.len() > 1 {
        let mut mm = maps.clone();
        mm.pop();
        check_bytes(r, &join_maps(&mm), "map-removed", Some("fewer maps than declared"));
    }
    {
        let mut t = b.to_vec();
        t.push(0);
        check_bytes(r, &t, "map-appended", Some("more maps than declared"));
    }
    if full {
        let mut f = |s: &[u8], _k: &'static str, _p: usize| check_bytes(r, s, "deviation", None);
        if b.len() <= 600 {
            dev::dev1(b, &mut f);
        } else {
            let w = dev::window(b.len(), 160, 48, 53);
            dev::dev1_at(b, &w, &mut f);
        }
    }
}

/// ELIP-100 / ELIP-102 accessors as a state machine: every sequence of accessor calls of length <= `depth` over a
/// 10-operation alphabet (set, overwrite with a different value, set for another asset, on input / output), against a
/// reference model that is a plain map holding the latest value per key. After EVERY step: each getter equals the
/// model, the "previous value" returned by add_* equals the model's previous value, and the same holds for the PSET
/// after a serialize / deserialize hop (the accessors' data must be what gets serialized).
fn accessor_histories(r: &Report, depth: usize) {
    use elements::confidential::AssetBlindingFactor as Abf;
    use elements::pset::elip100::{AssetMetadata, TokenMetadata};
    let ax = AssetId::from_byte_array(pat32(3));
    let ay = AssetId::from_byte_array(pat32(5));
    let m1 = AssetMetadata::new("contract-one".to_string(), elements::OutPoint::new(elements::Txid::from_byte_array(pat32(1)), 4));
    let m2 = AssetMetadata::new("{\"another\":\"contract\"}".to_string(), elements::OutPoint::new(elements::Txid::from_byte_array(pat32(2)), 0));
    let t1 = TokenMetadata::new(ax, false);
    let t2 = TokenMetadata::new(ay, true);
    let b1 = Abf::from_slice(gen::tweak(5001).as_ref()).unwrap();
    let b2 = Abf::from_slice(gen::tweak(5002).as_ref()).unwrap();
    // the metadata types are not Clone: the model stores indices into the value menus
    let metas = [&m1, &m2];
    let tokens = [&t1, &t2];
    #[derive(Clone, Default, PartialEq, Debug)]
    struct Model {
        asset: std::collections::BTreeMap<AssetId, usize>,
        token: std::collections::BTreeMap<AssetId, usize>,
        in_abf: Option<Abf>,
        out_abf: Option<Abf>,
    }
    const N_OPS: usize = 10;
    let names = ["asset(X,m1)", "asset(X,m2)", "asset(Y,m1)", "token(X,t1)", "token(X,t2)", "token(Y,t1)", "in.abf(b1)", "in.abf(b2)", "out.abf(b1)", "out.abf(b2)"];
    let observe = |p: &Pset, m: &Model| -> Result<(), String> {
        for a in [ax, ay] {
            let got = p.get_asset_metadata(a).map(|x| x.map_err(|e| format!("{:?}", e)));
            let same = match (&got, m.asset.get(&a)) {
                (None, None) => true,
                (Some(Ok(g)), Some(&i)) => g == metas[i],
                _ => false,
            };
            if !same {
                return Err(format!("get_asset_metadata({}) = {:?}, model: value #{:?}", a, got, m.asset.get(&a)));
            }
            let got = p.get_token_metadata(a).map(|x| x.map_err(|e| format!("{:?}", e)));
            let same = match (&got, m.token.get(&a)) {
                (None, None) => true,
                (Some(Ok(g)), Some(&i)) => g == tokens[i],
                _ => false,
            };
            if !same {
                return Err(format!("get_token_metadata({}) = {:?}, model: value #{:?}", a, got, m.token.get(&a)));
            }
        }
        let gi = p.inputs()[0].get_abf().map(|x| x.map_err(|e| format!("{:?}", e)));
        if gi != m.in_abf.map(Ok) {
            return Err(format!("input get_abf = {:?}, model {:?}", gi, m.in_abf));
        }
        let go = p.outputs()[0].get_abf().map(|x| x.map_err(|e| format!("{:?}", e)));
        if go != m.out_abf.map(Ok) {
            return Err(format!("output get_abf = {:?}, model {:?}", go, m.out_abf));
        }
        Ok(())
    };
    let mut total = 0u64;
    for len in 1..=depth {
        let seqs = crate::engine::product_vec(&vec![N_OPS; len]);
        total += seqs.len() as u64;
        seqs.par_iter().for_each(|seq| {
            let mut p = base_pset(1, 1, 0);
            let mut m = Model::default();
            for (step, &op) in seq.iter().enumerate() {
                r.trans(1);
                let case = || json!({"accessor_history": seq.iter().map(|&o| names[o]).collect::<Vec<_>>(), "step": step});
                // apply to the implementation and to the model; compare the reported previous value
                let prev_ok = match op {
                    0 | 1 | 2 => {
                        let (a, mi) = [(ax, 0usize), (ax, 1), (ay, 0)][op];
                        let old = p.add_asset_metadata(a, metas[mi]).map(|x| x.map_err(|e| format!("{:?}", e)));
                        match (old, m.asset.insert(a, mi)) {
                            (None, None) => true,
                            (Some(Ok(o)), Some(i)) => &o == metas[i],
                            _ => false,
                        }
                    }
                    3 | 4 | 5 => {
                        let (a, ti) = [(ax, 0usize), (ax, 1), (ay, 0)][op - 3];
                        let old = p.add_token_metadata(a, tokens[ti]).map(|x| x.map_err(|e| format!("{:?}", e)));
                        match (old, m.token.insert(a, ti)) {
                            (None, None) => true,
                            (Some(Ok(o)), Some(i)) => &o == tokens[i],
                            _ => false,
                        }
                    }
                    6 | 7 => {
                        let b = [b1, b2][op - 6];
                        p.inputs_mut()[0].set_abf(b);
                        m.in_abf = Some(b);
                        true
                    }
                    _ => {
                        let b = [b1, b2][op - 8];
                        p.outputs_mut()[0].set_abf(b);
                        m.out_abf = Some(b);
                        true
                    }
                };
                if !prev_ok {
                    r.violation("value/accessors/previous-value", case(), format!("{} did not return the value previously stored", names[op]));
                }
                if let Err(e) = observe(&p, &m) {
                    r.violation("value/accessors/in-memory", case(), e);
                }
                match guard(|| deserialize::<Pset>(&serialize(&p))) {
                    Ok(Ok(q)) => {
                        if let Err(e) = observe(&q, &m) {
                            r.violation("value/accessors/after-serialization", case(), e);
                        }
                        if q != p {
                            r.violation("value/accessors/roundtrip-differs", case(), "decode(encode(p)) != p after accessor calls");
                        }
                    }
                    other => r.violation("value/accessors/roundtrip-failed", case(), format!("{:?}", other.map(|x| x.map(|_| ())))),
                }
            }
        });
    }
    r.add_extra_count("accessor_histories", total);
}

pub fn run(r: &Report) {
    let thorough = r.tier.thorough();
    r.set_rule(
        "value side: strength-2 (pairwise) covering of the presence of all 66 optional/map fields (7 global, 46 input, 13 output) plus \
         all-absent / all-present, map sizes 1 and 2, shapes 0..2 inputs x 0..2 outputs x 3 base variants (plain / issuance / pegin \
         first input), 7 output modes (explicit, marked, fully blinded, commitments only, explicit amount + committed asset, committed amount + explicit asset, marked with an uncompressed blinding key), compressed and uncompressed public keys in every key-carrying field, every single field alone with both \
         values, tap trees of every shape with <= 5 leaves (distinct and duplicate scripts, mixed leaf versions), byte-vector lengths 0/1/75/76/252..256/65535/65536 in every field codec that frames one (tap-tree leaves in 3 positions, scripts, witness items, signatures, proprietary / unknown keys and values), ELIP-100/102 accessors (plus every accessor-call history of length <= 3 (4) over 10 operations incl. overwrites, against a map model, in memory and after a serialization hop), \
         PSETs from from_tx and from the combiner (self-merges, two descendants merged in both directions); byte side per encoding: all orderings of the pairs of each map with <= 4 pairs (adjacent transpositions + \
         reversal otherwise), duplication and deletion of every pair, same-key-different-value, input/output count +-1, a map removed / \
         appended, corrupted preimage and preimage key, and the 1-deviation neighbourhood; oracle: accepted => decode(encode(decode b)) \
         equal and second re-encoding identical; listed fault classes must be refused. non-trivial = distinct valid PSET encodings",
    );
    let ps = generated_psets(thorough);
    r.set_extra("psets_generated", json!(ps.len()));
    let encs: Vec<Option<(String, Vec<u8>)>> = ps.par_iter().map(|(o, p)| check_value(r, p, o.split('/').next().unwrap_or("")).map(|b| (o.clone(), b))).collect();
    let mut encs: Vec<(String, Vec<u8>)> = encs.into_iter().flatten().collect();
    // accessor round trips
    {
        use elements::pset::elip100::{AssetMetadata, TokenMetadata};
        let mut p = base_pset(1, 1, 0);
        let aid = AssetId::from_byte_array(pat32(3));
        let meta = AssetMetadata::new("contract".to_string(), elements::OutPoint::new(elements::Txid::from_byte_array(pat32(1)), 4));
        let tm = TokenMetadata::new(aid, false);
        p.add_asset_metadata(aid, &meta);
        p.add_token_metadata(aid, &tm);
        let abf = elements::confidential::AssetBlindingFactor::from_slice(gen::tweak(5001).as_ref()).unwrap();
        p.inputs_mut()[0].set_abf(abf);
        p.outputs_mut()[0].set_abf(abf);
        let q: Pset = deserialize(&serialize(&p)).unwrap_or_else(|_| p.clone());
        r.trans(4);
        let ok = matches!(q.get_asset_metadata(aid), Some(Ok(m)) if m == meta)
            && matches!(q.get_token_metadata(aid), Some(Ok(m)) if m == tm)
            && matches!(q.inputs()[0].get_abf(), Some(Ok(a)) if a == abf)
            && matches!(q.outputs()[0].get_abf(), Some(Ok(a)) if a == abf);
        if !ok {
            r.violation("value/accessors", json!({"pset": crate::engine::hex(&serialize(&p))}), "ELIP-100/102 metadata set through the accessors does not survive serialization");
        }
    }
    accessor_histories(r, r.tier.pick(3usize, 4));
    encs.sort();
    encs.dedup_by(|a, b| a.1 == b.1);
    r.set_extra("distinct_encodings", json!(encs.len()));
    // byte side: all mutation classes on every encoding; the 1-deviation neighbourhood on a bounded subset
    let budget = r.tier.pick(60usize, 400);
    let step = (encs.len() / budget).max(1);
    encs.par_iter().enumerate().for_each(|(i, (_, b))| byte_side(r, b, i % step == 0 && b.len() < 20_000));
    for (o, b) in encs.iter().step_by(encs.len() / 3 + 1) {
        r.sample(json!({"origin": o, "pset": hex_short(b)}));
    }
    // the repository's own PSET vector
    if let Ok(h) = std::fs::read_to_string("/repo/tests/data/pset_swap_tutorial.hex") {
        let b = crate::engine::unhex(h.trim());
        check_bytes(r, &b, "repository-vector", None);
        byte_side(r, &b, false);
    }
    r.assume("the full 2^66 field-subset product is not enumerable; strength-2 covering + extremes + singles is the stated bound; field values come from two variants each");
    r.assume("tap trees in PSETs contain no hidden nodes (BIP371 serializes leaves only)");
}

pub fn replay(case: &Value) -> String {
    let r = Report::new("C07", crate::engine::Tier::Quick, 0);
    match case["pset"].as_str() {
        Some(h) if !h.is_empty() => {
            let b = crate::engine::unhex(h);
            check_bytes(&r, &b, case["origin"].as_str().unwrap_or("replay"), None);
            if let Ok(p) = deserialize::<Pset>(&b) {
                check_value(&r, &p, "replay");
            }
        }
        _ => return "case has no bytes".into(),
    }
    let v = r.take_violations();
    if v.is_empty() { "HOLDS".into() } else { format!("VIOLATES {} ({})", v[0].1.class, v[0].1.detail) }
}
