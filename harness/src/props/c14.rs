//! C14 — merging PSETs never loses information, never panics, and is order-insensitive.
//! Families of 2..3 descendants of a common ancestor obtained by adding disjoint or identical
//! fields at any input / output / global position; all merge orders and groupings; pair-level union
//! oracle on the serializations; the xpub key-source table.

use crate::engine::{fnv, guard, permutations, Report};
use crate::gen::pat32;
use crate::props::c07::split_maps;
use crate::props::c08::{apply, Upd};
use crate::psetgen::*;
use elements::bitcoin::bip32::{ChildNumber, DerivationPath, Fingerprint};
use elements::encode::serialize;
use elements::pset::PartiallySignedTransaction as Pset;
use elements::{Script, Txid};
use rayon::prelude::*;
use serde_json::{json, Value};

/// fields whose addition changes the transaction itself (and so the unique id): not "independent additions"
const IDENTITY_INPUT: [&str; 8] = [
    "issuance_value_amount", "issuance_value_comm", "issuance_inflation_keys", "issuance_inflation_keys_comm", "issuance_blinding_nonce",
    "issuance_asset_entropy", "required_time_locktime", "required_height_locktime",
];
const IDENTITY_OUTPUT: [&str; 1] = ["ecdh_pubkey"];

pub fn bases() -> Vec<(&'static str, Pset)> {
    let mut comm_only = base_pset(1, 2, 0);
    for (j, o) in comm_only.outputs_mut().iter_mut().enumerate() {
        o.amount = None;
        o.asset = None;
        o.amount_comm = Some(comm(j as u64));
        o.asset_comm = Some(generator(j as u64));
    }
    vec![
        ("1in1out", base_pset(1, 1, 0)),
        ("2in2out/issuance", base_pset(2, 2, 1)),
        ("1in2out/pegin", base_pset(1, 2, 2)),
        ("2in1out", base_pset(2, 1, 0)),
        ("1in2out/commitments-only", comm_only),
    ]
}

pub fn base_by_name(n: &str) -> Option<Pset> {
    bases().into_iter().find(|(k, _)| *k == n).map(|(_, p)| p)
}

/// Extra output additions only meaningful on the commitments-only base: explicit amount / asset
fn apply_ext(p: &mut Pset, u: &Upd) {
    match u {
        Upd::Out(j, name, v) if name == "amount" => p.outputs_mut()[*j].amount = Some(500 + *v),
        Upd::Out(j, name, v) if name == "asset" => p.outputs_mut()[*j].asset = Some(elements::AssetId::from_byte_array(pat32(*v as usize))),
        _ => apply(p, u),
    }
}

pub fn alphabet(base: &Pset, base_name: &str, reduced: bool) -> Vec<Upd> {
    let mut a = Vec::new();
    let red_in = ["partial_sigs", "sighash_type", "sequence", "witness_utxo", "non_witness_utxo", "final_script_witness", "tap_key_sig", "bip32_derivation", "amount", "proprietary"];
    let red_out = ["bip32_derivation", "tap_tree", "blind_value_proof", "unknown"];
    let red_gl = ["fallback_locktime", "xpub", "scalars", "elements_tx_modifiable_flag"];
    for i in 0..base.n_inputs() {
        for f in input_fields() {
            if IDENTITY_INPUT.contains(&f.name) || (reduced && !red_in.contains(&f.name)) {
                continue;
            }
            for v in 0..2 {
                if reduced && v == 1 && !f.map {
                    continue;
                }
                a.push(Upd::In(i, f.name.to_string(), v));
            }
        }
    }
    for j in 0..base.n_outputs() {
        for f in output_fields() {
            if IDENTITY_OUTPUT.contains(&f.name) || (reduced && !red_out.contains(&f.name)) {
                continue;
            }
            // the five blinding fields may not be added one by one to an output that is marked for blinding; bases are unmarked
            for v in 0..2 {
                if reduced && v == 1 && !f.map {
                    continue;
                }
                a.push(Upd::Out(j, f.name.to_string(), v));
            }
        }
        if base_name.ends_with("commitments-only") {
            a.push(Upd::Out(j, "amount".into(), 0));
            a.push(Upd::Out(j, "asset".into(), 0));
        } else if base.outputs()[j].blinding_key.is_none() {
            // an updater marks the output for blinding (receiver key + blinder index)
            a.push(Upd::Out(j, "mark-for-blinding".into(), 0));
            if !reduced {
                a.push(Upd::Out(j, "mark-for-blinding".into(), 1));
            }
        }
    }
    for f in global_fields() {
        if reduced && !red_gl.contains(&f.name) {
            continue;
        }
        for v in 0..2 {
            if f.name == "fallback_locktime" && v == 1 {
                continue;
            }
            if reduced && v == 1 && !f.map {
                continue;
            }
            a.push(Upd::Glob(f.name.to_string(), v));
        }
    }
    a
}

fn is_map_field(u: &Upd) -> bool {
    match u {
        Upd::In(_, n, _) => input_fields().iter().any(|f| f.name == n && f.map),
        Upd::Out(_, n, _) => output_fields().iter().any(|f| f.name == n && f.map),
        Upd::Glob(n, _) => global_fields().iter().any(|f| f.name == n && f.map),
    }
}

fn same_slot(a: &Upd, b: &Upd) -> bool {
    match (a, b) {
        (Upd::In(i, n, _), Upd::In(j, m, _)) => i == j && n == m,
        (Upd::Out(i, n, _), Upd::Out(j, m, _)) => i == j && n == m,
        (Upd::Glob(n, _), Upd::Glob(m, _)) => n == m,
        _ => false,
    }
}
fn variant(u: &Upd) -> u64 {
    match u {
        Upd::In(_, _, v) | Upd::Out(_, _, v) | Upd::Glob(_, v) => *v,
    }
}

/// additions of different descendants must be disjoint or identical
fn compatible(fam: &[Vec<Upd>]) -> bool {
    let all: Vec<&Upd> = fam.iter().flatten().collect();
    for a in &all {
        for b in &all {
            if same_slot(a, b) && variant(a) != variant(b) && !is_map_field(a) {
                return false;
            }
            // tx_modifiable flags are OR-ed: different values are "conflicting", not disjoint
        }
    }
    // within one descendant: no repeated slot
    for d in fam {
        for (i, a) in d.iter().enumerate() {
            for b in &d[i + 1..] {
                if same_slot(a, b) && (variant(a) == variant(b) || !is_map_field(a)) {
                    return false;
                }
            }
        }
    }
    true
}

fn pair_label(map_idx: usize, n_in: usize, key: &[u8]) -> String {
    let m = if map_idx == 0 { "global" } else if map_idx <= n_in { "input" } else { "output" };
    if key[0] == 0xfc && key.len() >= 2 {
        let pl = key[1] as usize;
        if key.len() >= 2 + pl + 1 {
            let prefix = String::from_utf8_lossy(&key[2..2 + pl]).to_string();
            return format!("{}/fc:{}:{:02x}", m, prefix, key[2 + pl]);
        }
    }
    format!("{}/{:02x}", m, key[0])
}

/// merge `order` (indices into descendants) left to right; returns the result bytes or an error string
fn fold(desc: &[Pset], order: &[usize]) -> Result<Result<Pset, String>, String> {
    guard(|| {
        let mut acc = desc[order[0]].clone();
        for &i in &order[1..] {
            acc.merge(desc[i].clone()).map_err(|e| format!("{:?}", e))?;
        }
        Ok(acc)
    })
}

fn field_of(u: &Upd) -> String {
    match u {
        Upd::In(_, n, _) => format!("input.{}", n),
        Upd::Out(_, n, _) => format!("output.{}", n),
        Upd::Glob(n, _) => format!("global.{}", n),
    }
}

pub fn check_family(r: &Report, base_name: &str, base: &Pset, fam: &[Vec<Upd>]) {
    r.eval(1);
    r.state(1);
    let id0 = base.unique_id().map(|t| t.to_byte_array()).ok();
    let desc: Vec<Pset> = fam
        .iter()
        .map(|adds| {
            let mut p = base.clone();
            for u in adds {
                apply_ext(&mut p, u);
            }
            p
        })
        .collect();
    let case = || json!({"base": base_name, "family": fam});
    let has = |name: &str| fam.iter().flatten().any(|u| matches!(u, Upd::In(_, n, _) if n == name));
    let utxo_mix = has("witness_utxo") && has("non_witness_utxo");
    let n_in = base.n_inputs();
    // all left folds over all permutations
    let k = desc.len();
    let mut results: Vec<(Vec<usize>, Vec<u8>)> = Vec::new();
    for perm in permutations(k) {
        r.trans(k as u64 - 1);
        match fold(&desc, &perm) {
            Err(p) => {
                r.violation(format!("merge/panic@{}", crate::engine::panic_site(&p)), case(), p);
                return;
            }
            Ok(Err(e)) => {
                r.violation(format!("merge/refused/{}", e.split(|c| c == '(' || c == ' ').next().unwrap_or("")), case(), format!("order {:?}: {}", perm, e));
                return;
            }
            Ok(Ok(m)) => {
                r.trace(1);
                if m.unique_id().map(|t| t.to_byte_array()).ok() != id0 {
                    r.violation("merge/unique-id-changed", case(), "merged PSET has a different unique id");
                }
                results.push((perm, serialize(&m)));
            }
        }
    }
    // tree groupings for k = 3: (a + (b + c)) for all orders
    if k == 3 {
        for perm in permutations(3) {
            r.trans(2);
            let res = guard(|| -> Result<Pset, String> {
                let mut inner = desc[perm[1]].clone();
                inner.merge(desc[perm[2]].clone()).map_err(|e| format!("{:?}", e))?;
                let mut outer = desc[perm[0]].clone();
                outer.merge(inner).map_err(|e| format!("{:?}", e))?;
                Ok(outer)
            });
            match res {
                Ok(Ok(m)) => results.push((vec![perm[0], 10 + perm[1], 10 + perm[2]], serialize(&m))),
                Ok(Err(e)) => r.violation("merge/refused-grouping", case(), e),
                Err(p) => r.violation(format!("merge/panic@{}", crate::engine::panic_site(&p)), case(), p),
            }
        }
    }
    // (3) order insensitivity
    if results.iter().any(|(_, b)| b != &results[0].1) {
        // which pairs differ between the results?
        let rmaps: Vec<Vec<Vec<(Vec<u8>, Vec<u8>)>>> = results.iter().map(|(_, b)| split_maps(b).unwrap_or_default()).collect();
        let mut labels = std::collections::BTreeSet::new();
        for a in &rmaps {
            for (mi, m) in a.iter().enumerate() {
                for pair in m {
                    if rmaps.iter().any(|b| !b.get(mi).map(|x| x.contains(pair)).unwrap_or(false)) {
                        labels.insert(pair_label(mi, n_in, &pair.0));
                    }
                }
            }
        }
        let cls = if utxo_mix && labels.iter().all(|l| l == "input/00" || l == "input/01") {
            "merge/order-sensitive/witness_utxo-vs-non_witness_utxo".to_string()
        } else {
            format!("merge/order-sensitive/{}", labels.into_iter().collect::<Vec<_>>().join("+"))
        };
        r.violation(cls, case(), format!("{} merge orders / groupings give {} distinct results", results.len(), {
            let mut v: Vec<&Vec<u8>> = results.iter().map(|x| &x.1).collect();
            v.sort();
            v.dedup();
            v.len()
        }));
    }
    // (2) union: every pair of every operand is present in every result
    let operand_maps: Vec<Vec<Vec<(Vec<u8>, Vec<u8>)>>> = desc.iter().map(|d| split_maps(&serialize(d)).unwrap_or_default()).collect();
    for (perm, bytes) in &results {
        let rm = match split_maps(bytes) {
            Some(m) => m,
            None => continue,
        };
        for om in &operand_maps {
            for (mi, m) in om.iter().enumerate() {
                for (key, val) in m {
                    let present = rm.get(mi).map(|x| x.iter().any(|(k2, v2)| k2 == key && v2 == val)).unwrap_or(false);
                    if !present {
                        let label = pair_label(mi, n_in, key);
                        let key_present = rm.get(mi).map(|x| x.iter().any(|(k2, _)| k2 == key)).unwrap_or(false);
                        let cls = if label == "input/00" && utxo_mix {
                            "merge/pair-lost/input.non_witness_utxo/when-other-operand-has-witness_utxo".to_string()
                        } else if key_present {
                            format!("merge/value-replaced/{}", label)
                        } else {
                            format!("merge/pair-lost/{}", label)
                        };
                        r.violation(cls, case(), format!("order {:?}: pair {} present in an operand is missing from the result", perm, label));
                    }
                }
            }
        }
    }
    r.nontrivial(fnv(format!("{}{:?}", base_name, fam).as_bytes()));
}

// ------------------------------------------------------------------------------------------------
// xpub key sources

fn path(p: &[u32]) -> DerivationPath {
    DerivationPath::from(p.iter().map(|&x| ChildNumber::from(x)).collect::<Vec<_>>())
}

fn xpub_table(r: &Report) {
    let paths: Vec<Vec<u32>> = vec![vec![], vec![1], vec![2], vec![1, 2], vec![2, 2], vec![1, 1, 2]];
    let fps = [Fingerprint::from([1, 1, 1, 1]), Fingerprint::from([2, 2, 2, 2])];
    let mut sources = Vec::new();
    for p in &paths {
        for f in fps {
            sources.push((f, p.clone()));
        }
    }
    let xp = xpub(0);
    for (fa, pa) in &sources {
        for (fb, pb) in &sources {
            r.eval(1);
            r.state(1);
            r.trans(1);
            let mut a = base_pset(1, 1, 0);
            a.global.xpub.insert(xp, (*fa, path(pa)));
            let mut b = base_pset(1, 1, 0);
            b.global.xpub.insert(xp, (*fb, path(pb)));
            let case = || json!({"self": {"fingerprint": format!("{}", fa), "path": pa}, "other": {"fingerprint": format!("{}", fb), "path": pb}});
            // documented rule
            let is_suffix = |short: &Vec<u32>, long: &Vec<u32>| short.len() < long.len() && long[long.len() - short.len()..] == short[..];
            let expected: Result<(Fingerprint, Vec<u32>), ()> = if pa == pb && fa == fb {
                Ok((*fa, pa.clone()))
            } else if is_suffix(pb, pa) {
                Ok((*fa, pa.clone()))
            } else if is_suffix(pa, pb) {
                Ok((*fb, pb.clone()))
            } else {
                Err(())
            };
            let rel = if pa == pb && fa == fb {
                "equal"
            } else if pa == pb {
                "equal-path-different-fingerprint"
            } else if pa.len() == pb.len() {
                "same-length-different"
            } else if is_suffix(pa, pb) || is_suffix(pb, pa) {
                "suffix-related"
            } else {
                "different-length-unrelated"
            };
            match guard(|| {
                let mut m = a.clone();
                m.merge(b.clone()).map(|_| m)
            }) {
                Err(p) => r.violation(format!("xpub/panic/{}", rel), case(), p),
                Ok(res) => {
                    r.trace(1);
                    let got: Result<(Fingerprint, Vec<u32>), ()> = match &res {
                        Ok(m) => m.global.xpub.get(&xp).map(|(f, p)| (*f, p.into_iter().map(|c| u32::from(*c)).collect())).ok_or(()),
                        Err(_) => Err(()),
                    };
                    if got != expected {
                        r.violation(format!("xpub/differs-from-documented-rule/{}", rel), case(), format!("merge gives {:?}, documented rule gives {:?}", got, expected));
                    }
                    if let Err(e) = &res {
                        // "reported as a merge conflict": the variant itself, not its Debug rendering
                        if !matches!(e, elements::pset::Error::MergeConflict(_)) {
                            r.violation(format!("xpub/wrong-error/{}", rel), case(), format!("{:?}", e));
                        }
                    }
                    r.outcome(&format!("xpub:{}:{}", rel, if got.is_ok() { "reconciled" } else { "conflict" }));
                    r.nontrivial(fnv(format!("{:?}{:?}{:?}{:?}", fa, pa, fb, pb).as_bytes()));
                }
            }
        }
    }
}

fn refusal(r: &Report) {
    for (name, base) in bases() {
        let id_changes: Vec<(&str, Box<dyn Fn(&mut Pset)>)> = vec![
            ("prev_txid", Box::new(|p: &mut Pset| p.inputs_mut()[0].previous_txid = Txid::from_byte_array(pat32(6)))),
            ("prev_vout", Box::new(|p: &mut Pset| p.inputs_mut()[0].previous_output_index ^= 1)),
            ("output_script", Box::new(|p: &mut Pset| p.outputs_mut()[0].script_pubkey = Script::from(vec![0x51]))),
            ("output_amount", Box::new(|p: &mut Pset| {
                let o = &mut p.outputs_mut()[0];
                if o.amount_comm.is_some() { o.amount_comm = Some(comm(3)) } else { o.amount = Some(424242) }
            })),
            ("tx_version", Box::new(|p: &mut Pset| p.global.tx_data.version = 3)),
        ];
        for (what, f) in id_changes {
            r.eval(1);
            r.state(1);
            r.trans(2);
            let mut other = base.clone();
            f(&mut other);
            for (a, b) in [(base.clone(), other.clone()), (other.clone(), base.clone())] {
                let before = serialize(&a);
                let mut m = a.clone();
                match guard(|| m.merge(b.clone())) {
                    Err(p) => r.violation("refusal/panic", json!({"base": name, "change": what}), p),
                    Ok(Ok(())) => r.violation(format!("refusal/merged-different-transactions/{}", what), json!({"base": name, "change": what}), "PSETs with different unique ids were merged"),
                    // "refused" = any error (the property does not name the variant) that leaves the receiver as it was
                    Ok(Err(_e)) => {
                        if serialize(&m) != before {
                            r.violation("refusal/modified-on-refusal", json!({"base": name, "change": what}), "self was modified although the merge was refused");
                        }
                    }
                }
            }
        }
    }
}

/// merge must never panic, whatever the two PSETs are: a menu of odd PSETs (different input / output counts,
/// lock-time conflicts that make unique_id() an error on both sides, missing output values), all ordered pairs.
fn merge_totality(r: &Report) {
    use elements::pset::{Input, Output};
    let conflict = |n_in: usize, n_out: usize| {
        let mut p = base_pset(n_in.max(2), n_out, 0);
        p.inputs_mut()[0].required_time_locktime = Some(elements::locktime::Time::from_consensus(500_000_001).unwrap());
        p.inputs_mut()[1].required_height_locktime = Some(elements::locktime::Height::from_consensus(10).unwrap());
        p
    };
    let missing_value = |n_in: usize, n_out: usize| {
        let mut p = base_pset(n_in, n_out.max(1), 0);
        p.outputs_mut()[0].amount = None;
        p
    };
    let mut menu: Vec<(String, Pset)> = Vec::new();
    for (n_in, n_out) in [(0usize, 0usize), (1, 1), (2, 1), (3, 1), (2, 3), (1, 3)] {
        menu.push((format!("plain/{}in{}out", n_in, n_out), base_pset(n_in, n_out, 0)));
        menu.push((format!("locktime-conflict/{}in{}out", n_in.max(2), n_out), conflict(n_in, n_out)));
        menu.push((format!("missing-output-value/{}in{}out", n_in, n_out.max(1)), missing_value(n_in, n_out)));
    }
    {
        // declared counts that disagree with the maps cannot be built through the API; extremes of the API instead
        let mut p = Pset::new_v2();
        p.add_input(Input::default());
        p.add_output(Output::default());
        menu.push(("default-maps".into(), p));
    }
    for (na, a) in &menu {
        for (nb, b) in &menu {
            r.eval(1);
            r.state(1);
            r.trans(1);
            let before_in = a.n_inputs();
            let mut m = a.clone();
            match guard(|| m.merge(b.clone())) {
                Err(p) => r.violation(format!("merge/panic@{}", crate::engine::panic_site(&p)), json!({"self": na, "other": nb}), p),
                Ok(res) => {
                    r.outcome(if res.is_ok() { "totality:merged" } else { "totality:refused" });
                    // PSETs with different numbers of inputs or outputs cannot describe the same transaction: they must be
                    // refused whether or not a unique id can be computed for each of them (a lock-time conflict makes
                    // unique_id() an error; that must not open the gate)
                    // Not demanded when NEITHER side has a computable id: the statement speaks of "different unique ids", and two
                    // PSETs without any id do not have different ones (the library compares the two errors and merges them;
                    // recorded in DESIGN.md as an observation outside the property).
                    let (ia, ib) = (a.unique_id().is_ok(), b.unique_id().is_ok());
                    if res.is_ok() && (ia || ib) && (a.n_inputs() != b.n_inputs() || a.n_outputs() != b.n_outputs()) {
                        let idk = if ia && ib { "computable-ids" } else { "one-uncomputable-id" };
                        r.violation(format!("refusal/merged-different-transactions/different-shape/{}", idk), json!({"self": na, "other": nb}), "PSETs with different input / output counts were merged");
                    }
                    if m.n_inputs() != before_in {
                        r.violation("merge/changed-input-count", json!({"self": na, "other": nb}), "merge changed the number of inputs");
                    }
                    // whatever happened, the result must still serialize
                    if let Err(p) = guard(|| serialize(&m)) {
                        r.violation("merge/result-does-not-serialize", json!({"self": na, "other": nb}), p);
                    }
                }
            }
        }
    }
    r.set_extra("merge_totality_pairs", json!(menu.len() * menu.len()));
}

pub fn run(r: &Report) {
    let thorough = r.tier.thorough();
    r.set_rule(
        "ancestors: 5 base PSETs (1..2 inputs, 1..2 outputs, plain / issuance / pegin / commitments-only outputs); addition alphabet: \
         every optional and map field of Global, Input and Output at every position with two values (identity-relevant fields excluded); \
         families: k=2 with one addition each (complete product, conflicting pairs skipped), k=2 with two additions each over a reduced \
         alphabet, k=3 with one addition each over the reduced alphabet (full alphabet on the 1x1 base in thorough); every family merged in \
         all orders (k=2: 2, k=3: 6 left folds + 6 right-nested groupings); oracles: unique id kept, pair-level union of the operands' \
         serializations, byte-identical results; refusal of PSETs with different prev txid / vout / output script / amount / version in both \
         directions; all 12x12 ordered pairs of xpub key sources against the documented reconciliation rule. non-trivial = distinct families",
    );
    for (name, base) in bases() {
        // an "addition" must add pairs: operations that would change a field the ancestor already has are dropped
        let base_maps = split_maps(&serialize(&base)).unwrap_or_default();
        let is_addition = |u: &Upd| {
            let mut p = base.clone();
            apply_ext(&mut p, u);
            let m = split_maps(&serialize(&p)).unwrap_or_default();
            m != base_maps && base_maps.iter().enumerate().all(|(mi, bm)| bm.iter().all(|pair| m.get(mi).map(|x| x.contains(pair)).unwrap_or(false)))
        };
        let full: Vec<Upd> = alphabet(&base, name, false).into_iter().filter(|u| is_addition(u)).collect();
        let red: Vec<Upd> = alphabet(&base, name, true).into_iter().filter(|u| is_addition(u)).collect();
        r.add_extra_count("alphabet_full_sum", full.len() as u64);
        // k = 2, one addition each
        let mut fams: Vec<Vec<Vec<Upd>>> = Vec::new();
        for a in &full {
            for b in &full {
                fams.push(vec![vec![a.clone()], vec![b.clone()]]);
            }
        }
        // k = 2, two additions each (reduced alphabet)
        let pairs: Vec<Vec<Upd>> = {
            let mut v = Vec::new();
            for i in 0..red.len() {
                for j in i + 1..red.len() {
                    v.push(vec![red[i].clone(), red[j].clone()]);
                }
            }
            v
        };
        let step = if thorough { 1 } else { 5 };
        for (i, a) in pairs.iter().enumerate() {
            for (j, b) in pairs.iter().enumerate() {
                if (i + j) % step == 0 {
                    fams.push(vec![a.clone(), b.clone()]);
                }
            }
        }
        // k = 3, one addition each
        let a3 = if thorough && name == "1in1out" { &full } else { &red };
        for a in a3 {
            for b in a3 {
                for c in a3 {
                    fams.push(vec![vec![a.clone()], vec![b.clone()], vec![c.clone()]]);
                }
            }
        }
        let fams: Vec<Vec<Vec<Upd>>> = fams.into_iter().filter(|f| compatible(f)).collect();
        r.add_extra_count("families", fams.len() as u64);
        fams.par_iter().for_each(|f| check_family(r, name, &base, f));
        if r.sample_room() {
            r.sample(json!({"base": name, "family": fams[fams.len() / 2]}));
        }
    }
    refusal(r);
    merge_totality(r);
    xpub_table(r);
    r.assume("additions are disjoint or identical (same non-map field with different values in two descendants is a conflict and is skipped, as the property says nothing about it)");
    r.assume("field values from two variants each; fingerprint of 'same result' = serialized bytes");
}

pub fn replay(case: &Value) -> String {
    let r = Report::new("C14", crate::engine::Tier::Quick, 0);
    if let (Some(b), Ok(f)) = (case["base"].as_str(), serde_json::from_value::<Vec<Vec<Upd>>>(case["family"].clone())) {
        match base_by_name(b) {
            Some(base) => check_family(&r, b, &base, &f),
            None => return "unknown base".into(),
        }
    } else {
        return "xpub / refusal cases: re-run the check".into();
    }
    let v = r.take_violations();
    if v.is_empty() { "HOLDS".into() } else { format!("VIOLATES {} ({})", v[0].1.class, v[0].1.detail) }
}
