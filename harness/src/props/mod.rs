use crate::engine::Report;
use serde_json::Value;

pub mod c01;
pub mod c02;
pub mod c03;
pub mod c04;
pub mod c05;
pub mod c06;
pub mod c07;
pub mod c08;
pub mod c09;
pub mod c10;
pub mod c11;
pub mod c12;
pub mod c13;
pub mod c14;
pub mod c15;
pub mod c16;
pub mod c17;
pub mod c18;
pub mod c19;
pub mod c20;

pub fn registry() -> Vec<(&'static str, fn(&Report), Option<fn(&Value) -> String>)> {
    vec![
        ("C01", c01::run, Some(c01::replay)),
        ("C02", c02::run, Some(c02::replay)),
        ("C03", c03::run, Some(c03::replay)),
        ("C04", c04::run, Some(c04::replay)),
        ("C05", c05::run, Some(c05::replay)),
        ("C06", c06::run, Some(c06::replay)),
        ("C07", c07::run, Some(c07::replay)),
        ("C08", c08::run, Some(c08::replay)),
        ("C09", c09::run, Some(c09::replay)),
        ("C10", c10::run, Some(c10::replay)),
        ("C11", c11::run, Some(c11::replay)),
        ("C12", c12::run, Some(c12::replay)),
        ("C13", c13::run, Some(c13::replay_case)),
        ("C14", c14::run, Some(c14::replay)),
        ("C15", c15::run, Some(c15::replay)),
        ("C16", c16::run, Some(c16::replay)),
        ("C17", c17::run, Some(c17::replay)),
        ("C18", c18::run, Some(c18::replay)),
        ("C19", c19::run, None),
        ("C20", c20::run, None),
    ]
}
