use crate::engine::Report;
use serde_json::Value;

pub mod c18;

pub fn registry() -> Vec<(&'static str, fn(&Report), Option<fn(&Value) -> String>)> {
    vec![
        ("C18", c18::run, Some(c18::replay)),
    ]
}
