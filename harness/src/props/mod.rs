use crate::engine::Report;
use serde_json::Value;

pub mod c01;
pub mod c04;
pub mod c18;

pub fn registry() -> Vec<(&'static str, fn(&Report), Option<fn(&Value) -> String>)> {
    vec![
        ("C01", c01::run, Some(c01::replay)),
        ("C04", c04::run, Some(c04::replay)),
        ("C18", c18::run, Some(c18::replay)),
    ]
}
