//! C20 — serde (JSON, CBOR) and textual (Display/FromStr) forms round-trip.

use crate::engine::{fnv, guard, Report};
use crate::gen::{self, pat32};
use crate::oracle::model::*;
use elements::confidential::{AssetBlindingFactor, ValueBlindingFactor};
use elements::hashes::Hash;
use elements::pset::PartiallySignedTransaction as Pset;
use elements::{AssetId, EcdsaSighashType, LockTime, OutPoint, SchnorrSighashType, Sequence, Txid};
use rayon::prelude::*;
use serde::de::DeserializeOwned;
use serde::Serialize;
use serde_json::json;
use std::fmt::{Debug, Display};
use std::str::FromStr;

fn short<T: Debug>(v: &T) -> String {
    format!("{:?}", v).chars().take(600).collect()
}

/// JSON + CBOR round trip of one value
pub fn serde_rt<T: Serialize + DeserializeOwned + PartialEq + Debug>(r: &Report, ty: &str, sub: &str, v: &T) {
    r.eval(1);
    r.state(1);
    r.trans(2);
    let res = guard(|| -> (Result<(), String>, Result<(), String>) {
        let j = (|| {
            let s = serde_json::to_string(v).map_err(|e| format!("serialize: {}", e))?;
            let b: T = serde_json::from_str(&s).map_err(|e| format!("deserialize: {} (json prefix {})", e, s.chars().take(160).collect::<String>()))?;
            if &b != v { Err("round trip differs".to_string()) } else { Ok(()) }
        })();
        let c = (|| {
            let s = serde_cbor::to_vec(v).map_err(|e| format!("serialize: {}", e))?;
            let b: T = serde_cbor::from_slice(&s).map_err(|e| format!("deserialize: {}", e))?;
            if &b != v { Err("round trip differs".to_string()) } else { Ok(()) }
        })();
        (j, c)
    });
    let case = || json!({"type": ty, "value": short(v)});
    match res {
        Err(p) => r.violation(format!("serde/{}/panic@{}", ty, crate::engine::panic_site(&p)), case(), p),
        Ok((j, c)) => {
            r.trace(2);
            if let Err(e) = j {
                r.violation(format!("serde/json/{}{}/{}", ty, sub, e.split(':').next().unwrap_or("")), case(), e);
            }
            if let Err(e) = c {
                r.violation(format!("serde/cbor/{}{}/{}", ty, sub, e.split(':').next().unwrap_or("")), case(), e);
            }
            r.nontrivial(fnv(format!("{}{:?}", ty, v).as_bytes()));
        }
    }
}

/// Display -> FromStr round trip
pub fn text_rt<T: Display + FromStr + PartialEq + Debug>(r: &Report, ty: &str, v: &T)
where
    <T as FromStr>::Err: Debug,
{
    r.trans(1);
    let res = guard(|| {
        let s = v.to_string();
        (s.clone(), T::from_str(&s))
    });
    match res {
        Err(p) => r.violation(format!("text/{}/panic", ty), json!({"type": ty, "value": short(v)}), p),
        Ok((s, Ok(b))) => {
            if &b != v {
                r.violation(format!("text/{}/round-trip-differs", ty), json!({"type": ty, "text": s}), format!("'{}' parses to {:?}", s, b));
            }
        }
        Ok((s, Err(e))) => r.violation(format!("text/{}/own-display-rejected", ty), json!({"type": ty, "text": s}), format!("'{}' -> {:?}", s, e)),
    }
}

pub fn run(r: &Report) {
    let thorough = r.tier.thorough();
    r.set_rule(
        "serde JSON + CBOR: transactions (witness classes, shapes, blinder outputs), inputs, outputs (full confidential-field product), \
         blocks, headers (legacy + all dynafed combinations), parameter sets, addresses (all payload kinds x blinder x network), scripts, \
         asset/value/nonce, blinding factors, output secrets, 12 hash newtypes, PSETs (C07 generator: covering rows, singles, tap trees), \
         PSET inputs/outputs/global; Display/FromStr: all values of Sequence / LockTime / Height / Time / PsbtSighashType over 2^20 + \
         boundaries (all 2^32 in thorough), all ECDSA / Schnorr types, OutPoint menu, hash newtypes, blinding factors, PSET base64. \
         non-trivial = distinct (type, value) pairs through serde",
    );
    // ---- serde
    let mut txs = gen::txs_witness_classes();
    txs.extend(gen::txs_input_variants());
    txs.extend(gen::txs_shapes().into_iter().step_by(if thorough { 1 } else { 3 }));
    if !thorough {
        // the transactions whose byte fields are also valid text (last entries of the shape generator)
        let all = gen::txs_shapes();
        txs.extend(all[all.len() - gen::TEXTY.len()..].iter().cloned());
    }
    let libtxs: Vec<elements::Transaction> = txs.iter().map(to_tx).chain(crate::props::c04::blinded_samples(r.seed, 3)).collect();
    r.set_extra("transactions", json!(libtxs.len()));
    libtxs.par_iter().for_each(|t| serde_rt(r, "Transaction", "", t));
    for i in gen::txins().iter().step_by(if thorough { 1 } else { 5 }) {
        serde_rt(r, "TxIn", "", &to_txin(i));
    }
    for w in gen::inwits() {
        let i = RTxIn { wit: w, ..gen::txin_rep(gen::InKind::Pegin, 0) };
        serde_rt(r, "TxIn", "", &to_txin(&i));
    }
    let outs = gen::txouts_full();
    outs.par_iter().step_by(if thorough { 1 } else { 3 }).for_each(|o| serde_rt(r, "TxOut", "", &to_txout(o)));
    for a in gen::assets() {
        serde_rt(r, "confidential::Asset", "", &to_asset(&a));
    }
    for a in gen::values() {
        serde_rt(r, "confidential::Value", "", &to_value(&a));
    }
    for a in gen::nonces() {
        serde_rt(r, "confidential::Nonce", "", &to_nonce(&a));
    }
    let headers = gen::headers();
    headers.par_iter().for_each(|h| serde_rt(r, "BlockHeader", "", &to_header(h)));
    for (k, h) in headers.iter().enumerate().step_by(7) {
        let b = RBlock { header: h.clone(), txs: (0..(k % 3)).map(|j| txs[(k * 13 + j) % txs.len()].clone()).collect() };
        serde_rt(r, "Block", "", &to_block(&b));
    }
    for p in gen::params_menu() {
        serde_rt(r, "dynafed::Params", "", &to_params(&p));
    }
    let fps = gen::full_params(false);
    for f in fps.iter().step_by(if thorough { 1 } else { 9 }).chain(fps[fps.len() - gen::TEXTY.len()..].iter()) {
        serde_rt(r, "dynafed::Params", "", &to_params(&RParams::Full(f.clone())));
        serde_rt(r, "dynafed::Params", "", &to_full(f).into_compact());
    }
    // addresses
    {
        use crate::props::c06::{blinders, hash20, to_lib, RPayload};
        for net in 0..3 {
            for b in blinders() {
                let mut ps = vec![RPayload::Pkh(hash20(1)), RPayload::Sh(hash20(4)), RPayload::Wit(0, gen::blob(20, 1)), RPayload::Wit(0, gen::blob(32, 2))];
                for v in 1..=16u8 {
                    ps.push(RPayload::Wit(v, gen::blob(2 + (v as usize * 5) % 39, v)));
                }
                for p in ps {
                    let a = to_lib(net, &p, &b);
                    serde_rt(r, "Address", "", &a);
                    text_rt(r, "Address", &a);
                }
            }
        }
    }
    for s in gen::scripts() {
        serde_rt(r, "Script", "", &elements::Script::from(s));
    }
    for t in gen::TEXTY {
        serde_rt(r, "Script", "text-like", &elements::Script::from(t.to_vec()));
    }
    for k in 0..8u64 {
        let abf = AssetBlindingFactor::from_slice(gen::tweak(6000 + k).as_ref()).unwrap();
        let vbf = ValueBlindingFactor::from_slice(gen::tweak(6100 + k).as_ref()).unwrap();
        serde_rt(r, "AssetBlindingFactor", "", &abf);
        serde_rt(r, "ValueBlindingFactor", "", &vbf);
        text_rt(r, "AssetBlindingFactor", &abf);
        text_rt(r, "ValueBlindingFactor", &vbf);
        serde_rt(r, "TxOutSecrets", "", &elements::TxOutSecrets::new(AssetId::from_byte_array(pat32(k as usize)), abf, [0u64, 1, u64::MAX][k as usize % 3], vbf));
    }
    serde_rt(r, "AssetBlindingFactor", "", &AssetBlindingFactor::zero());
    serde_rt(r, "ValueBlindingFactor", "", &ValueBlindingFactor::zero());
    text_rt(r, "AssetBlindingFactor", &AssetBlindingFactor::zero());
    text_rt(r, "ValueBlindingFactor", &ValueBlindingFactor::zero());
    // hash newtypes
    for k in 0..8usize {
        let b = pat32(k);
        macro_rules! h {
            ($t:ty, $name:expr) => {{
                let v = <$t>::from_byte_array(b);
                serde_rt(r, $name, "", &v);
                text_rt(r, $name, &v);
            }};
        }
        h!(elements::Txid, "Txid");
        h!(elements::Wtxid, "Wtxid");
        h!(elements::BlockHash, "BlockHash");
        h!(elements::WScriptHash, "WScriptHash");
        h!(elements::TxMerkleNode, "TxMerkleNode");
        h!(elements::AssetId, "AssetId");
        h!(elements::ContractHash, "ContractHash");
        h!(elements::AssetEntropy, "AssetEntropy");
        h!(elements::DynafedRoot, "DynafedRoot");
        h!(elements::dynafed::ParamsRoot, "ParamsRoot");
        h!(elements::dynafed::ElidedRoot, "ElidedRoot");
        h!(elements::taproot::TapLeafHash, "TapLeafHash");
        h!(elements::taproot::TapNodeHash, "TapNodeHash");
        let mut s20 = [0u8; 20];
        s20.copy_from_slice(&b[..20]);
        let sh = elements::ScriptHash::from_byte_array(s20);
        serde_rt(r, "ScriptHash", "", &sh);
        text_rt(r, "ScriptHash", &sh);
        for vout in [0u32, 1, (1 << 30) - 1, u32::MAX] {
            let op = OutPoint::new(Txid::from_byte_array(b), vout);
            serde_rt(r, "OutPoint", "", &op);
            text_rt(r, "OutPoint", &op);
            // the bare "txid:vout" form (without the [elements] prefix) parses to the same outpoint
            let s = format!("{}:{}", op.txid, op.vout);
            match OutPoint::from_str(&s) {
                Ok(x) if x == op => {}
                other => r.violation("text/OutPoint/bare-form", json!({"text": s}), format!("{:?}", other)),
            }
        }
    }
    // PSETs
    let psets = crate::props::c07::generated_psets(false);
    let step = if thorough { 1 } else { 3 };
    r.set_extra("psets", json!(psets.len() / step));
    psets.par_iter().step_by(step).for_each(|(o, p)| {
        let has_cb = p.inputs().iter().any(|i| !i.tap_scripts.is_empty());
        serde_rt(r, "Pset", if has_cb { "/with-tap_scripts" } else { "" }, p);
        text_rt(r, "Pset(base64)", p);
        if o.starts_with("single") || o.starts_with("taptree") {
            for i in p.inputs() {
                serde_rt(r, "pset::Input", if !i.tap_scripts.is_empty() { "/with-tap_scripts" } else { "" }, i);
            }
            for x in p.outputs() {
                serde_rt(r, "pset::Output", "", x);
            }
        }
    });
    for k in 0..3u64 {
        let cb = crate::psetgen::control_block(k);
        serde_rt(r, "taproot::ControlBlock", "", &cb);
    }
    serde_rt(r, "pset::raw::Key", "", &crate::psetgen::unknown_key(1));
    serde_rt(r, "pset::raw::ProprietaryKey", "", &crate::psetgen::prop_key(1));
    // sighash types through serde (string form)
    for ty in crate::props::c03::ECDSA_TYPES {
        let t = EcdsaSighashType::from_u32(ty);
        serde_rt(r, "EcdsaSighashType", "", &t);
        text_rt(r, "EcdsaSighashType", &t);
    }
    for ty in [0x00u8, 0x01, 0x02, 0x03, 0x81, 0x82, 0x83] {
        let t = SchnorrSighashType::from_u8(ty).unwrap();
        serde_rt(r, "SchnorrSighashType", "", &t);
        text_rt(r, "SchnorrSighashType", &t);
    }
    text_rt(r, "SchnorrSighashType", &SchnorrSighashType::Reserved);
    serde_rt(r, "SchnorrSighashType", "", &SchnorrSighashType::Reserved);

    // ---- Display / FromStr over integer-like types: all values up to 2^20 + boundaries, or all 2^32
    let ranges: Vec<(u64, u64)> = if thorough {
        (0..256u64).map(|k| (k << 24, (k + 1) << 24)).collect()
    } else {
        let mut v = vec![(0u64, 1 << 20)];
        for c in [500_000_000u64, 1 << 30, 1 << 31, (1u64 << 32) - (1 << 12)] {
            v.push((c.saturating_sub(1 << 12), (c + (1 << 12)).min(1 << 32)));
        }
        for k in 0..64u64 {
            v.push(((k << 26) + 12345, (k << 26) + 12345 + 4096));
        }
        v
    };
    let total: u64 = ranges.iter().map(|(a, b)| b - a).sum();
    r.set_extra("integer_values_per_type", json!(total));
    ranges.par_iter().for_each(|&(a, b)| {
        let mut bad = [0u64; 5];
        for n in a..b {
            let n = n as u32;
            let s = Sequence(n);
            if Sequence::from_str(&s.to_string()).ok() != Some(s) {
                bad[0] += 1;
                if bad[0] == 1 {
                    r.violation("text/Sequence/round-trip", json!({"n": n}), format!("Sequence({}) prints as '{}'", n, s));
                }
            }
            let l = LockTime::from_consensus(n);
            if LockTime::from_str(&l.to_string()).ok() != Some(l) {
                bad[1] += 1;
                if bad[1] == 1 {
                    r.violation("text/LockTime/round-trip", json!({"n": n}), format!("LockTime {} prints as '{}'", n, l));
                }
            }
            let p = elements::pset::PsbtSighashType::from_u32(n);
            if elements::pset::PsbtSighashType::from_str(&p.to_string()).ok() != Some(p) {
                bad[2] += 1;
                if bad[2] == 1 {
                    r.violation("text/PsbtSighashType/round-trip", json!({"n": n}), format!("PsbtSighashType {} prints as '{}'", n, p));
                }
            }
            if let Ok(h) = elements::locktime::Height::from_consensus(n) {
                if elements::locktime::Height::from_str(&h.to_string()).ok() != Some(h) {
                    bad[3] += 1;
                    if bad[3] == 1 {
                        r.violation("text/Height/round-trip", json!({"n": n}), format!("Height {} prints as '{}'", n, h));
                    }
                }
            }
            if let Ok(t) = elements::locktime::Time::from_consensus(n) {
                if elements::locktime::Time::from_str(&t.to_string()).ok() != Some(t) {
                    bad[4] += 1;
                    if bad[4] == 1 {
                        r.violation("text/Time/round-trip", json!({"n": n}), format!("Time {} prints as '{}'", n, t));
                    }
                }
            }
        }
        r.trans((b - a) * 5);
    });
    // serde of the integer-like types on the boundary set
    for n in [0u32, 1, 499_999_999, 500_000_000, 0x7fff_ffff, 0x8000_0000, u32::MAX - 1, u32::MAX] {
        serde_rt(r, "Sequence", "", &Sequence(n));
        serde_rt(r, "LockTime", "", &LockTime::from_consensus(n));
        serde_rt(r, "PsbtSighashType", "", &elements::pset::PsbtSighashType::from_u32(n));
    }
    r.sample(json!({"serde_example": {"type": "TxOut", "json": serde_json::to_string(&to_txout(&outs[100])).unwrap_or_default().chars().take(300).collect::<String>()}}));
    r.sample(json!({"text_example": {"type": "OutPoint", "text": OutPoint::new(Txid::from_byte_array(pat32(1)), 7).to_string()}}));
    r.assume("serde_json and serde_cbor are trusted as the human-readable and binary self-describing formats; values from the structural generators (payload menus)");
}
