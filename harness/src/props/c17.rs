//! C17 — segwit address checksums detect every one- and two-character corruption.
//! For each representative address: ALL single and double substitutions over the 32-character
//! alphabet in the data part (witness version and checksum characters included), each parsed with
//! from_str, parse_with_params under all three networks and the serde string deserializer. HRP: every character replaced by each
//! other lower-case alphanumeric, singly and in pairs.

use crate::engine::{fnv, guard, Report};
use crate::gen;
use crate::oracle::addr::CHARSET;
use crate::props::c06::{blinders, ref_string, to_lib, RPayload, NETS};
use elements::Address;
use rayon::prelude::*;
use serde_json::{json, Value};
use std::str::FromStr;
use std::sync::atomic::{AtomicU64, Ordering};

/// every public way of turning text into an address: FromStr, parse_with_params under each network, and the serde
/// deserializer fed with a string
fn accepts(s: &str) -> Result<bool, String> {
    guard(|| {
        use serde::de::IntoDeserializer;
        use serde::Deserialize;
        let d: serde::de::value::StrDeserializer<serde::de::value::Error> = s.into_deserializer();
        Address::from_str(s).is_ok() || NETS.iter().any(|p| Address::parse_with_params(s, p).is_ok()) || Address::deserialize(d).is_ok()
    })
}

thread_local! {
    static GENUINE: std::cell::RefCell<String> = std::cell::RefCell::new(String::new());
}

/// History: the genuine address is parsed successfully on this thread immediately before every corrupted candidate
/// (the order in which a wallet sees them: the pasted original, then the mistyped copy). A parser that remembers
/// anything about its previous success must still reject the corruption.
fn accepts_after_genuine(t: &str) -> Result<bool, String> {
    GENUINE.with(|g| {
        let g = g.borrow();
        if !g.is_empty() {
            let _ = guard(|| Address::from_str(&g).is_ok());
        }
    });
    accepts(t)
}

fn explore(r: &Report, s: &str, label: &str) {
    r.eval(1);
    r.state(1);
    let sep = s.rfind('1').unwrap();
    let base = s.as_bytes().to_vec();
    let data_pos: Vec<usize> = (sep + 1..base.len()).collect();
    let l = data_pos.len();
    r.nontrivial(fnv(s.as_bytes()));
    // the original must parse (non-vacuity)
    if accepts(s) != Ok(true) {
        r.machinery(format!("representative address {} does not parse", s));
        return;
    }
    let accepted = AtomicU64::new(0);
    let tried = AtomicU64::new(0);
    // singles + doubles, parallel over the first position
    (0..l).into_par_iter().for_each(|a| {
        GENUINE.with(|g| *g.borrow_mut() = s.to_string());
        let mut buf = base.clone();
        let pa = data_pos[a];
        let oa = base[pa];
        let mut local = 0u64;
        for &ca in CHARSET.iter() {
            if ca == oa {
                continue;
            }
            buf[pa] = ca;
            // single
            {
                let t = std::str::from_utf8(&buf).unwrap();
                local += 1;
                match accepts_after_genuine(t) {
                    Ok(false) => {}
                    Ok(true) => {
                        accepted.fetch_add(1, Ordering::Relaxed);
                        r.violation(format!("single-substitution-accepted/{}", label), json!({"original": s, "corrupted": t}), format!("position {} -> '{}'", pa, ca as char));
                    }
                    Err(p) => r.violation(format!("panic/{}", label), json!({"original": s, "corrupted": t}), p),
                }
            }
            for b in a + 1..l {
                let pb = data_pos[b];
                let ob = base[pb];
                for &cb in CHARSET.iter() {
                    if cb == ob {
                        continue;
                    }
                    buf[pb] = cb;
                    let t = std::str::from_utf8(&buf).unwrap();
                    local += 1;
                    match accepts_after_genuine(t) {
                        Ok(false) => {}
                        Ok(true) => {
                            accepted.fetch_add(1, Ordering::Relaxed);
                            r.violation(format!("double-substitution-accepted/{}", label), json!({"original": s, "corrupted": t}), format!("positions {},{}", pa, pb));
                        }
                        Err(p) => r.violation(format!("panic/{}", label), json!({"original": s, "corrupted": t}), p),
                    }
                }
                buf[pb] = ob;
            }
        }
        tried.fetch_add(local, Ordering::Relaxed);
    });
    // HRP substitutions
    GENUINE.with(|g| *g.borrow_mut() = s.to_string());
    let alnum: Vec<u8> = (b'a'..=b'z').chain(b'0'..=b'9').chain(b'A'..=b'Z').collect();
    let mut hrp_tried = 0u64;
    for a in 0..sep {
        for &ca in &alnum {
            if ca == base[a] {
                continue;
            }
            let mut buf = base.clone();
            buf[a] = ca;
            let mut try_one = |buf: &[u8], what: &str| {
                let t = std::str::from_utf8(buf).unwrap();
                hrp_tried += 1;
                match accepts_after_genuine(t) {
                    Ok(false) => {}
                    Ok(true) => r.violation(format!("hrp-substitution-accepted/{}", label), json!({"original": s, "corrupted": t}), what.to_string()),
                    Err(p) => r.violation(format!("panic/{}", label), json!({"original": s, "corrupted": t}), p),
                }
            };
            try_one(&buf, "one hrp character");
            for b in a + 1..sep {
                for &cb in &alnum {
                    if cb == base[b] {
                        continue;
                    }
                    let ob = buf[b];
                    buf[b] = cb;
                    try_one(&buf, "two hrp characters");
                    // every character of a 3-character HRP replaced at once
                    if sep == 3 {
                        for c in b + 1..sep {
                            for &cc in &alnum {
                                if cc == base[c] {
                                    continue;
                                }
                                let oc = buf[c];
                                buf[c] = cc;
                                try_one(&buf, "three hrp characters");
                                buf[c] = oc;
                            }
                        }
                    }
                    buf[b] = ob;
                }
            }
        }
    }
    let n = tried.load(Ordering::Relaxed) + hrp_tried;
    r.trans(n);
    r.rejected.fetch_add(n - accepted.load(Ordering::Relaxed), Ordering::Relaxed);
    r.accepted.fetch_add(accepted.load(Ordering::Relaxed), Ordering::Relaxed);
    r.add_extra_count("strings_tried", n);
    if r.sample_room() {
        r.sample(json!({"address": s, "data_chars": l, "single_and_double_substitutions": tried.load(Ordering::Relaxed), "hrp_substitutions": hrp_tried}));
    }
}

pub fn run(r: &Report) {
    let bl = blinders();
    // (net, version, program length, blinded)
    let mut reps: Vec<(usize, u8, usize, bool)> = vec![
        (0, 0, 20, false),
        (1, 1, 32, false),
        (0, 0, 20, true),
        (1, 0, 32, true),
        (2, 1, 32, true),
        (0, 16, 40, true),
        (2, 16, 2, false),
        (1, 2, 2, true),
    ];
    if r.tier.thorough() {
        reps.clear();
        for net in 0..3 {
            for blinded in [false, true] {
                reps.push((net, 0, 20, blinded));
                reps.push((net, 0, 32, blinded));
                for len in 2..=40usize {
                    reps.push((net, 1 + (len % 16) as u8, len, blinded));
                }
            }
        }
    }
    r.set_rule(&format!(
        "{} representative segwit addresses ({}); for each, the COMPLETE set of single (L*31) and double (C(L,2)*31^2) substitutions \
         over the bech32 alphabet in the data part (version and checksum characters included) and all single/double (triple for 3-character HRPs) HRP substitutions \
         over [a-z0-9A-Z], each parsed with from_str and parse_with_params under all three networks; non-trivial = distinct representative addresses",
        reps.len(),
        if r.tier.thorough() { "every program length 2..40 and v0 20/32, blinded and unblinded, on all three networks" } else { "bech32 v0-20, bech32m v1-32, blech32 v0-20/32, blech32m v1-32, longest blech32m v16-40, shortest bech32m/blech32m" }
    ));
    for (k, (net, ver, len, blinded)) in reps.iter().enumerate() {
        let payload = RPayload::Wit(*ver, gen::blob(*len, (k as u8).wrapping_mul(13).wrapping_add(r.seed as u8)));
        let b = if *blinded { bl[1 + k % 2] } else { None };
        let s = ref_string(*net, &payload, &b);
        // the reference string must equal the library's display (binding of model to implementation)
        if to_lib(*net, &payload, &b).to_string() != s {
            r.machinery(format!("reference string {} differs from library display", s));
            continue;
        }
        r.trace(1);
        let label = format!("{}v{}", if *blinded { "blech32" } else { "bech32" }, if *ver == 0 { "0" } else { "1+" });
        explore(r, &s, &label);
    }
    r.assume("payload bytes of each representative come from one deterministic pattern (varied by VERIF_SEED); by linearity of the code over GF(32) detection of an error pattern does not depend on the payload, only on positions, error values and length");
    r.assume("characters outside the 32-character alphabet are out of scope of the statement (they are rejected by character validation)");
}

pub fn replay(case: &Value) -> String {
    let t = case["corrupted"].as_str().unwrap_or("");
    match accepts_after_genuine(t) {
        Ok(true) => format!("VIOLATES corrupted string {} parses (original {})", t, case["original"]),
        Ok(false) => "HOLDS rejected".into(),
        Err(p) => format!("VIOLATES panic {}", p),
    }
}
