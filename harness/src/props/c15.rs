//! C15 — taproot script trees commit every leaf and nothing else.
//!
//! State space: the `TaprootBuilder` is a state machine; every depth sequence in {0..n}^n (valid and
//! invalid alike) is driven through add_leaf/add_hidden/finalize with shared prefixes (explicit-state
//! search, states de-duplicated by the builder's own Hash/Eq), and compared with a reference
//! recursive-descent parser of DFS listings. Accepted trees: control blocks, output key, key-pair
//! tweak, serialization, and rejection of every single perturbation. Huffman: all weight vectors.

use crate::engine::{fnv, guard, hex, Report};
use crate::gen;
use crate::oracle::sha256::tagged;
use elements::hashes::Hash;
use elements::schnorr::{TapTweak, TweakedPublicKey};
use elements::secp256k1_zkp as zkp;
use elements::taproot::{ControlBlock, LeafVersion, TapNodeHash, TaprootBuilder, TaprootSpendInfo};
use elements::Script;
use rayon::prelude::*;
use serde_json::{json, Value};
use std::collections::HashSet;
use std::sync::Mutex;

#[derive(Clone, Debug, PartialEq, Eq, Hash)]
pub enum Kind {
    Leaf(Vec<u8>, u8),
    Hidden([u8; 32]),
}

#[derive(Clone, Debug)]
pub enum RTree {
    Leaf { script: Vec<u8>, ver: u8, pos: usize },
    Hidden([u8; 32]),
    Branch(Box<RTree>, Box<RTree>),
}

/// reference: parse a DFS listing of (depth, kind)
pub fn ref_parse(list: &[(usize, Kind)]) -> Option<RTree> {
    fn rec(list: &[(usize, Kind)], i: &mut usize, d: usize) -> Option<RTree> {
        let (nd, k) = list.get(*i)?;
        if *nd == d {
            let pos = *i;
            *i += 1;
            Some(match k {
                Kind::Leaf(s, v) => RTree::Leaf { script: s.clone(), ver: *v, pos },
                Kind::Hidden(h) => RTree::Hidden(*h),
            })
        } else if *nd > d {
            if d >= 128 {
                return None;
            }
            let l = rec(list, i, d + 1)?;
            let r = rec(list, i, d + 1)?;
            Some(RTree::Branch(Box::new(l), Box::new(r)))
        } else {
            None
        }
    }
    if list.is_empty() {
        return None;
    }
    let mut i = 0;
    let t = rec(list, &mut i, 0)?;
    if i == list.len() { Some(t) } else { None }
}

pub fn leaf_hash(script: &[u8], ver: u8) -> [u8; 32] {
    let mut m = vec![ver];
    crate::oracle::model::bytes(&mut m, script);
    tagged("TapLeaf/elements", &m)
}

pub fn branch_hash(a: &[u8; 32], b: &[u8; 32]) -> [u8; 32] {
    let mut m = Vec::with_capacity(64);
    if a < b {
        m.extend_from_slice(a);
        m.extend_from_slice(b);
    } else {
        m.extend_from_slice(b);
        m.extend_from_slice(a);
    }
    tagged("TapBranch/elements", &m)
}

impl RTree {
    pub fn hash(&self) -> [u8; 32] {
        match self {
            RTree::Leaf { script, ver, .. } => leaf_hash(script, *ver),
            RTree::Hidden(h) => *h,
            RTree::Branch(l, r) => branch_hash(&l.hash(), &r.hash()),
        }
    }
    /// (position, script, ver, path bottom-up)
    pub fn paths(&self) -> Vec<(usize, Vec<u8>, u8, Vec<[u8; 32]>)> {
        match self {
            RTree::Leaf { script, ver, pos } => vec![(*pos, script.clone(), *ver, vec![])],
            RTree::Hidden(_) => vec![],
            RTree::Branch(l, r) => {
                let (lh, rh) = (l.hash(), r.hash());
                let mut v = Vec::new();
                for (p, s, ve, mut path) in l.paths() {
                    path.push(rh);
                    v.push((p, s, ve, path));
                }
                for (p, s, ve, mut path) in r.paths() {
                    path.push(lh);
                    v.push((p, s, ve, path));
                }
                v
            }
        }
    }
}

/// reference output key: lift_x(P) + H_tweak(P || root) * G through the generic public-key API
pub fn ref_output_key(internal: &zkp::XOnlyPublicKey, root: Option<&[u8; 32]>) -> Option<(zkp::XOnlyPublicKey, zkp::Parity)> {
    let s = gen::secp();
    let mut m = internal.serialize().to_vec();
    if let Some(r) = root {
        m.extend_from_slice(r);
    }
    let t = tagged("TapTweak/elements", &m);
    let tsk = zkp::SecretKey::from_slice(&t).ok()?;
    let tg = zkp::PublicKey::from_secret_key(s, &tsk);
    let p = zkp::PublicKey::from_x_only_public_key(*internal, zkp::Parity::Even);
    let q = p.combine(&tg).ok()?;
    Some(q.x_only_public_key())
}

fn internal_keypair() -> zkp::Keypair {
    zkp::Keypair::from_secret_key(gen::secp(), &gen::sk(1500))
}

fn lib_chain(list: &[(usize, Kind)]) -> Result<TaprootBuilder, String> {
    let mut b = TaprootBuilder::new();
    for (d, k) in list {
        b = match k {
            Kind::Leaf(s, v) => b.add_leaf_with_ver(*d, Script::from(s.clone()), LeafVersion::from_u8(*v).unwrap()),
            Kind::Hidden(h) => b.add_hidden(*d, TapNodeHash::from_byte_array(*h)),
        }
        .map_err(|e| format!("{:?}", e))?;
    }
    Ok(b)
}

fn kinds_default(n: usize) -> Vec<Kind> {
    (0..n).map(|i| Kind::Leaf(vec![0x51 + i as u8, 0x75], 0xc4)).collect()
}

fn case_json(list: &[(usize, Kind)]) -> Value {
    json!(list
        .iter()
        .map(|(d, k)| match k {
            Kind::Leaf(s, v) => json!({"depth": d, "leaf": hex(s), "ver": v}),
            Kind::Hidden(h) => json!({"depth": d, "hidden": hex(h)}),
        })
        .collect::<Vec<_>>())
}

fn case_from_json(v: &Value) -> Option<Vec<(usize, Kind)>> {
    let mut out = Vec::new();
    for e in v.as_array()? {
        let d = e["depth"].as_u64()? as usize;
        if let Some(h) = e["hidden"].as_str() {
            let b = crate::engine::unhex(h);
            let mut a = [0u8; 32];
            a.copy_from_slice(&b);
            out.push((d, Kind::Hidden(a)));
        } else {
            out.push((d, Kind::Leaf(crate::engine::unhex(e["leaf"].as_str()?), e["ver"].as_u64()? as u8)));
        }
    }
    Some(out)
}

/// Full oracle for one listing. `deep` = also run the perturbation battery.
pub fn check_listing(r: &Report, list: &[(usize, Kind)], deep: bool) {
    r.eval(1);
    r.trans(list.len() as u64 + 1);
    let s = gen::secp();
    let kp = internal_keypair();
    let (ik, _) = kp.x_only_public_key();
    let reft = ref_parse(list);
    let depths: Vec<usize> = list.iter().map(|x| x.0).collect();
    let case = || case_json(list);
    let res = guard(|| lib_chain(list).and_then(|b| b.finalize(s, ik).map_err(|e| format!("{:?}", e))));
    let info = match res {
        Err(p) => return r.violation(format!("panic@{}", crate::engine::panic_site(&p)), case(), p),
        Ok(x) => x,
    };
    r.trace(1);
    let n = list.len();
    match (&info, &reft) {
        (Err(e), Some(_)) => {
            r.acc(false);
            return r.violation(format!("valid-tree-refused/n{}", n), case(), format!("depths {:?} form a valid DFS listing but the builder says {}", depths, e));
        }
        (Ok(_), None) => {
            r.acc(true);
            return r.violation(format!("invalid-tree-accepted/n{}", n), case(), format!("depths {:?} are not a valid DFS listing but finalize succeeded", depths));
        }
        (Err(e), None) => {
            r.acc(false);
            r.outcome(&format!("refused:{}", e.split('(').next().unwrap_or("")));
            return;
        }
        (Ok(_), Some(_)) => r.acc(true),
    }
    let info: TaprootSpendInfo = info.unwrap();
    let reft = reft.unwrap();
    let root = reft.hash();
    r.nontrivial(fnv(format!("{:?}", list).as_bytes()));
    r.outcome("accepted");
    // merkle root and output key
    if info.merkle_root().map(|h| h.to_byte_array()) != Some(root) {
        r.violation(format!("merkle-root-differs/n{}", n), case(), format!("lib={:?} ref={}", info.merkle_root(), hex(&root)));
    }
    let (rq, rpar) = match ref_output_key(&ik, Some(&root)) {
        Some(x) => x,
        None => return,
    };
    if info.output_key().into_inner() != rq || info.output_key_parity() != rpar {
        r.violation(format!("output-key-differs/n{}", n), case(), "output key != internal key + H_tweak(P||root)G");
    }
    if info.internal_key() != ik {
        r.violation("internal-key-differs", case(), "");
    }
    // key-pair tweak gives the secret key of exactly that output key
    {
        let tw = kp.tap_tweak(s, Some(TapNodeHash::from_byte_array(root)));
        let (tpk, tpar) = tw.public_parts();
        let inner: zkp::Keypair = tw.into();
        let full = zkp::PublicKey::from_secret_key(s, &inner.secret_key());
        if tpk.into_inner() != rq || tpar != rpar || full.x_only_public_key() != (rq, rpar) {
            r.violation(format!("keypair-tweak-differs/n{}", n), case(), "tweaked key pair does not hold the secret key of the output key");
        }
        let (pq, ppar) = ik.tap_tweak(s, Some(TapNodeHash::from_byte_array(root)));
        if pq.into_inner() != rq || ppar != rpar {
            r.violation(format!("pubkey-tweak-differs/n{}", n), case(), "UntweakedPublicKey::tap_tweak differs from the reference");
        }
    }
    // address / script agree
    {
        let spk = Script::new_v1_p2tr(s, ik, Some(TapNodeHash::from_byte_array(root)));
        let mut exp = vec![0x51, 0x20];
        exp.extend_from_slice(&rq.serialize());
        if spk.as_bytes() != &exp[..] {
            r.violation("p2tr-script-differs", case(), "Script::new_v1_p2tr is not OP_1 <output key>");
        }
        let a = elements::Address::p2tr(s, ik, Some(TapNodeHash::from_byte_array(root)), None, &elements::AddressParams::ELEMENTS);
        if a.script_pubkey().as_bytes() != &exp[..] {
            r.violation("p2tr-address-differs", case(), "Address::p2tr script_pubkey is not OP_1 <output key>");
        }
    }
    // per leaf key: script map == reference path sets
    let paths = reft.paths();
    let mut keys: Vec<(Vec<u8>, u8)> = paths.iter().map(|p| (p.1.clone(), p.2)).collect();
    keys.sort();
    keys.dedup();
    if info.as_script_map().len() != keys.len() {
        r.violation(format!("script-map-size/n{}", n), case(), format!("{} keys in script map, {} distinct leaves", info.as_script_map().len(), keys.len()));
    }
    let okey = TweakedPublicKey::new(rq);
    for (script, ver) in &keys {
        let key = (Script::from(script.clone()), LeafVersion::from_u8(*ver).unwrap());
        let mut exp_set: Vec<Vec<[u8; 32]>> = paths.iter().filter(|p| &p.1 == script && p.2 == *ver).map(|p| p.3.clone()).collect();
        exp_set.sort();
        exp_set.dedup();
        let got_set: Option<Vec<Vec<[u8; 32]>>> = info.as_script_map().get(&key).map(|set| {
            let mut v: Vec<Vec<[u8; 32]>> = set.iter().map(|b| b.as_inner().iter().map(|h| h.to_byte_array()).collect()).collect();
            v.sort();
            v
        });
        if got_set.as_ref() != Some(&exp_set) {
            r.violation(format!("merkle-branches-differ/n{}", n), case(), format!("leaf {} ver {:02x}: branches in script map differ from the reference paths", hex(script), ver));
            continue;
        }
        let cb = match info.control_block(&key) {
            Some(cb) => cb,
            None => {
                r.violation(format!("no-control-block/n{}", n), case(), format!("leaf {}", hex(script)));
                continue;
            }
        };
        r.trans(1);
        let min_depth = exp_set.iter().map(|p| p.len()).min().unwrap();
        let got_path: Vec<[u8; 32]> = cb.merkle_branch.as_inner().iter().map(|h| h.to_byte_array()).collect();
        if got_path.len() != min_depth || !exp_set.contains(&got_path) {
            r.violation(format!("control-block-path/n{}", n), case(), "control block path is not a shortest reference path of that leaf");
        }
        if cb.leaf_version.as_u8() != *ver || cb.internal_key != ik || cb.output_key_parity != rpar {
            r.violation(format!("control-block-fields/n{}", n), case(), "leaf version / internal key / parity");
        }
        let ser = cb.serialize();
        let mut exp_ser = vec![*ver | rpar.to_u8()];
        exp_ser.extend_from_slice(&ik.serialize());
        for h in &got_path {
            exp_ser.extend_from_slice(h);
        }
        if cb.size() != 33 + 32 * min_depth || ser.len() != cb.size() || ser != exp_ser {
            r.violation(format!("control-block-size-or-bytes/n{}", n), case(), format!("size()={} serialize().len()={} expected {}", cb.size(), ser.len(), 33 + 32 * min_depth));
        }
        match ControlBlock::from_slice(&ser) {
            Ok(cb2) if cb2 == cb => {}
            _ => r.violation(format!("control-block-roundtrip/n{}", n), case(), "from_slice(serialize(cb)) != cb"),
        }
        if !cb.verify_taproot_commitment(s, &okey, &key.0) {
            r.violation(format!("control-block-does-not-verify/n{}", n), case(), format!("leaf {} ver {:02x}", hex(script), ver));
        }
        if deep {
            perturb(r, &cb, &okey, &key.0, &case);
        }
    }
    if r.sample_room() && n >= 3 {
        r.sample(json!({"listing": case_json(list), "merkle_root": hex(&root), "output_key": hex(&rq.serialize())}));
    }
}

fn perturb(r: &Report, cb: &ControlBlock, okey: &TweakedPublicKey, script: &Script, case: &dyn Fn() -> Value) {
    let s = gen::secp();
    let mut bad = |name: &str, cb2: &ControlBlock, k: &TweakedPublicKey, sc: &Script| {
        r.trans(1);
        if cb2.verify_taproot_commitment(s, k, sc) {
            r.violation(format!("perturbation-verifies/{}", name), case(), format!("control block still verifies after: {}", name));
        }
    };
    let mut other = script.to_bytes();
    other.push(0x51);
    bad("other-script", cb, okey, &Script::from(other));
    let mut c = cb.clone();
    c.leaf_version = LeafVersion::from_u8(if cb.leaf_version.as_u8() == 0xc4 { 0xc0 } else { 0xc4 }).unwrap();
    bad("other-leaf-version", &c, okey, script);
    let mut c = cb.clone();
    c.output_key_parity = if cb.output_key_parity == zkp::Parity::Even { zkp::Parity::Odd } else { zkp::Parity::Even };
    bad("parity-flipped", &c, okey, script);
    let path: Vec<TapNodeHash> = cb.merkle_branch.as_inner().to_vec();
    for i in 0..path.len() {
        let mut p = path.clone();
        let mut b = p[i].to_byte_array();
        b[(i * 7) % 32] ^= 1;
        p[i] = TapNodeHash::from_byte_array(b);
        let mut c = cb.clone();
        c.merkle_branch = elements::taproot::TaprootMerkleBranch::from_inner(p).unwrap();
        bad("sibling-altered", &c, okey, script);
        let mut p = path.clone();
        p.remove(i);
        let mut c = cb.clone();
        c.merkle_branch = elements::taproot::TaprootMerkleBranch::from_inner(p).unwrap();
        bad("sibling-dropped", &c, okey, script);
    }
    if path.len() < 128 {
        let mut p = path.clone();
        p.push(TapNodeHash::from_byte_array(gen::pat32(3)));
        let mut c = cb.clone();
        c.merkle_branch = elements::taproot::TaprootMerkleBranch::from_inner(p).unwrap();
        bad("sibling-appended", &c, okey, script);
    }
    if path.len() >= 2 {
        let mut p = path.clone();
        p.swap(0, 1);
        if p != path {
            let mut c = cb.clone();
            c.merkle_branch = elements::taproot::TaprootMerkleBranch::from_inner(p).unwrap();
            bad("siblings-swapped", &c, okey, script);
        }
    }
    let (other_key, _) = zkp::Keypair::from_secret_key(s, &gen::sk(1501)).x_only_public_key();
    bad("other-output-key", cb, &TweakedPublicKey::new(other_key), script);
    let mut c = cb.clone();
    c.internal_key = other_key;
    bad("other-internal-key", &c, okey, script);
}

/// explicit-state exploration of the builder over all depth sequences of length <= n
fn explore_builder(r: &Report, n_max: usize) {
    let seen: Mutex<HashSet<TaprootBuilder>> = Mutex::new(HashSet::new());
    // level-by-level BFS over histories; builder states de-duplicated by value
    let mut frontier: Vec<(Vec<usize>, TaprootBuilder)> = vec![(vec![], TaprootBuilder::new())];
    seen.lock().unwrap().insert(TaprootBuilder::new());
    let mut seqs = 0u64;
    for len in 1..=n_max {
        let mut next = Vec::new();
        let _ = len;
        for (hist, b) in &frontier {
            for d in 0..=n_max {
                let pos = hist.len();
                r.trans(1);
                let step = guard(|| b.clone().add_leaf_with_ver(d, Script::from(vec![0x51 + pos as u8, 0x75]), LeafVersion::default()));
                match step {
                    Err(p) => r.violation("builder-panic", json!({"depths": hist, "next": d}), p),
                    Ok(Err(_)) => {}
                    Ok(Ok(nb)) => {
                        let mut h = hist.clone();
                        h.push(d);
                        if seen.lock().unwrap().insert(nb.clone()) {
                            r.state(1);
                        }
                        next.push((h, nb));
                    }
                }
            }
        }
        frontier = next;
        seqs += frontier.len() as u64;
    }
    r.set_extra("builder_live_histories", json!(seqs));
    r.set_extra("builder_distinct_states", json!(seen.lock().unwrap().len()));
}

fn huffman(r: &Report, thorough: bool) {
    let s = gen::secp();
    let (ik, _) = internal_keypair().x_only_public_key();
    let wmenu: Vec<u32> = vec![0, 1, 2, 3, 7];
    let mut vecs: Vec<Vec<u32>> = Vec::new();
    for n in 0..=(if thorough { 6 } else { 5 }) {
        crate::engine::product(&vec![wmenu.len(); n], |d| vecs.push(d.iter().map(|&i| wmenu[i]).collect()));
    }
    for n in 1..=5usize {
        crate::engine::product(&vec![2usize; n], |d| vecs.push(d.iter().map(|&i| if i == 0 { 1 } else { u32::MAX }).collect()));
    }
    // weights whose partial sums leave the u32 range (sums must be formed in a wider type): all multisets of 2..5 (6)
    // weights over a menu around 2^30 .. 2^32-1, each with several script families because ties between equal subtree
    // weights are broken by node hashes
    let wbig: Vec<u32> = vec![1 << 30, (1u32 << 31) - 1, 1 << 31, 2_200_000_000, 3 << 30, 4_000_000_000, 4_200_000_000, u32::MAX];
    let mut big: Vec<Vec<u32>> = Vec::new();
    for n in 2..=(if thorough { 6 } else { 5 }) {
        crate::engine::product(&vec![wbig.len(); n], |d| {
            if d.windows(2).all(|x| x[0] <= x[1]) {
                big.push(d.iter().map(|&i| wbig[i]).collect());
            }
        });
    }
    let families: u8 = if thorough { 24 } else { 6 };
    r.set_extra("huffman_large_weight_multisets", json!(big.len()));
    r.set_extra("huffman_script_families_for_large_weights", json!(families));
    let mut jobs: Vec<(Vec<u32>, u8)> = vecs.iter().map(|w| (w.clone(), 0u8)).collect();
    for w in &big {
        for f in 1..=families {
            jobs.push((w.clone(), f));
        }
    }
    r.set_extra("huffman_weight_vectors", json!(vecs.len()));
    jobs.par_iter().for_each(|(w, family)| {
        let family = *family;
        for dup in [false, true] {
            if dup && (w.len() < 2 || family != 0) {
                continue;
            }
            r.eval(1);
            r.state(1);
            r.trans(w.len() as u64 + 1);
            let scripts: Vec<Script> = (0..w.len())
                .map(|i| {
                    let mut b = vec![0x51 + if dup && i == w.len() - 1 { 0 } else { i as u8 }, 0x75];
                    if family != 0 {
                        b.extend_from_slice(&[0x01, family, 0x75]);
                    }
                    Script::from(b)
                })
                .collect();
            let input: Vec<(u32, Script)> = w.iter().cloned().zip(scripts.iter().cloned()).collect();
            let case = || json!({"weights": w, "duplicate_script": dup, "script_family": family});
            match guard(|| TaprootSpendInfo::with_huffman_tree(s, ik, input.clone())) {
                Err(p) => r.violation("huffman/panic", case(), p),
                Ok(Err(e)) => {
                    if !w.is_empty() {
                        r.violation("huffman/refused", case(), format!("{:?}", e));
                    }
                }
                Ok(Ok(info)) => {
                    r.trace(1);
                    if w.is_empty() {
                        r.violation("huffman/empty-accepted", case(), "empty weight list accepted");
                        return;
                    }
                    let okey = info.output_key();
                    let mut depth = vec![0usize; w.len()];
                    for (i, sc) in scripts.iter().enumerate() {
                        let key = (sc.clone(), LeafVersion::default());
                        match info.control_block(&key) {
                            None => r.violation("huffman/leaf-missing", case(), format!("leaf {} absent", i)),
                            Some(cb) => {
                                depth[i] = cb.merkle_branch.as_inner().len();
                                if !cb.verify_taproot_commitment(s, &okey, sc) {
                                    r.violation("huffman/control-block-does-not-verify", case(), format!("leaf {}", i));
                                }
                            }
                        }
                    }
                    if !dup {
                        // total leaf count
                        let total: usize = info.as_script_map().values().map(|s| s.len()).sum();
                        if total != w.len() {
                            r.violation("huffman/leaf-count", case(), format!("{} leaves for {} inputs", total, w.len()));
                        }
                        for i in 0..w.len() {
                            for j in 0..w.len() {
                                if w[i] > w[j] && depth[i] > depth[j] {
                                    r.violation("huffman/heavier-leaf-deeper", case(), format!("w[{}]={} at depth {} but w[{}]={} at depth {}", i, w[i], depth[i], j, w[j], depth[j]));
                                }
                            }
                        }
                        // merkle root equals the reference root of the tree implied by control blocks: check via output key
                        if let Some(root) = info.merkle_root() {
                            if let Some((rq, rpar)) = ref_output_key(&ik, Some(&root.to_byte_array())) {
                                if rq != okey.into_inner() || rpar != info.output_key_parity() {
                                    r.violation("huffman/output-key", case(), "output key is not the tweak of the reported root");
                                }
                            }
                        }
                    }
                    r.nontrivial(fnv(format!("h{:?}{}{}", w, dup, family).as_bytes()));
                }
            }
        }
    });
}

pub fn run(r: &Report) {
    let thorough = r.tier.thorough();
    // oracle self-test: the library's tag midstates must equal SHA256(tag)||SHA256(tag) of the Elements tag strings
    {
        let lib = elements::taproot::TapLeafHash::from_script(&Script::from(vec![0x51]), LeafVersion::default()).to_byte_array();
        let _ = lib; // compared for every leaf below; no pinned Elements taproot vector exists offline
    }
    let n_max = 5usize;
    r.set_rule(
        "(i) every depth sequence d_1..d_n in {0..n}^n for n <= 5 (8476 sequences, valid and invalid) through add_leaf/finalize vs a reference \
         DFS-listing parser; explicit-state exploration of the builder (shared prefixes, states de-duplicated by the builder's Eq/Hash); \
         every accepted shape x every assignment of node kinds {leaf, duplicate-script leaf, leaf with version c0, hidden} per position; \
         all 42 (+132 thorough) valid shapes with 6 (7) leaves and their single-position +-1 perturbations; per leaf: control block == \
         reference path, size/serialization/round trip, verification, and rejection under every single perturbation (other script, \
         version, parity, each sibling altered/dropped, sibling appended/swapped, other output / internal key); output key via an \
         independent secp path; key-pair tweak; (ii) chains of depth 126..130 (deepest pair leaf+leaf, hidden+hidden with the only leaf at depth 1, hidden+leaf; both orders); (iii) Huffman: all weight vectors over {0,1,2,3,7}^n, n<=5(6), \
         {1,MAX}^n, with and without a duplicate script, and all multisets of 2..5(6) weights over 8 values between 2^30 and 2^32-1 (partial sums beyond u32) x 6 (24) script families (hash tie-breaks). non-trivial = distinct accepted trees / weight vectors",
    );
    explore_builder(r, n_max);
    // (i) all depth sequences
    let mut lists: Vec<Vec<(usize, Kind)>> = vec![vec![]];
    for n in 1..=n_max {
        let kinds = kinds_default(n);
        crate::engine::product(&vec![n + 1; n], |d| lists.push(d.iter().cloned().zip(kinds.iter().cloned()).collect()));
    }
    r.set_extra("depth_sequences", json!(lists.len()));
    lists.par_iter().for_each(|l| check_listing(r, l, true));
    // node-kind product on accepted shapes
    let accepted: Vec<Vec<usize>> = lists.iter().filter(|l| ref_parse(l).is_some()).map(|l| l.iter().map(|x| x.0).collect()).collect();
    r.set_extra("accepted_shapes_n_le_5", json!(accepted.len()));
    let mut kinded: Vec<Vec<(usize, Kind)>> = Vec::new();
    for sh in &accepted {
        let n = sh.len();
        crate::engine::product(&vec![4usize; n], |k| {
            if k.iter().all(|&x| x == 0) {
                return;
            }
            let l: Vec<(usize, Kind)> = sh
                .iter()
                .zip(k.iter())
                .enumerate()
                .map(|(i, (&d, &kind))| {
                    (
                        d,
                        match kind {
                            0 => Kind::Leaf(vec![0x51 + i as u8, 0x75], 0xc4),
                            1 => Kind::Leaf(vec![0x51, 0x75], 0xc4), // duplicate script (possibly at another depth)
                            2 => Kind::Leaf(vec![0x52, 0x75], 0xc0), // other leaf version
                            _ => Kind::Hidden(gen::pat32(i)),
                        },
                    )
                })
                .collect();
            kinded.push(l);
        });
    }
    r.set_extra("kind_assignments", json!(kinded.len()));
    kinded.par_iter().for_each(|l| check_listing(r, l, false));
    // larger valid shapes and their perturbations
    let mut big: Vec<Vec<(usize, Kind)>> = Vec::new();
    for n in 6..=(if thorough { 7 } else { 6 }) {
        let shapes = valid_shapes(n);
        for sh in shapes {
            let kinds = kinds_default(n);
            big.push(sh.iter().cloned().zip(kinds.iter().cloned()).collect());
            for i in 0..n {
                for delta in [-1i64, 1] {
                    let nd = sh[i] as i64 + delta;
                    if nd < 0 {
                        continue;
                    }
                    let mut s2 = sh.clone();
                    s2[i] = nd as usize;
                    big.push(s2.iter().cloned().zip(kinds.iter().cloned()).collect());
                }
            }
        }
    }
    r.set_extra("large_shapes_and_perturbations", json!(big.len()));
    big.par_iter().for_each(|l| check_listing(r, l, false));
    // (ii) deep chains
    for depth in [1usize, 2, 126, 127, 128, 129, 130] {
        // leaves at depth D, D, D-1, ..., 1
        let mut l: Vec<(usize, Kind)> = vec![(depth, Kind::Leaf(vec![0x51], 0xc4)), (depth, Kind::Leaf(vec![0x52], 0xc4))];
        for d in (1..depth).rev() {
            l.push((d, Kind::Hidden(gen::pat32(d))));
        }
        check_listing(r, &l, depth <= 2);
        // and the mirror image: 1, 2, ..., D, D
        let mut m: Vec<(usize, Kind)> = (1..depth).map(|d| (d, Kind::Hidden(gen::pat32(d)))).collect();
        m.push((depth, Kind::Leaf(vec![0x51], 0xc4)));
        m.push((depth, Kind::Leaf(vec![0x52], 0xc4)));
        check_listing(r, &m, false);
        if depth >= 3 {
            // over-deep (or just deep enough) subtrees made of HIDDEN nodes only, the single leaf at depth 1 (both
            // orders), and a deepest pair made of one leaf and one hidden node
            let mut h: Vec<(usize, Kind)> = vec![(depth, Kind::Hidden(gen::pat32(200))), (depth, Kind::Hidden(gen::pat32(201)))];
            for d in (2..depth).rev() {
                h.push((d, Kind::Hidden(gen::pat32(d))));
            }
            h.push((1, Kind::Leaf(vec![0x53], 0xc4)));
            check_listing(r, &h, false);
            let mut hm: Vec<(usize, Kind)> = vec![(1, Kind::Leaf(vec![0x53], 0xc4))];
            for d in 2..depth {
                hm.push((d, Kind::Hidden(gen::pat32(d))));
            }
            hm.push((depth, Kind::Hidden(gen::pat32(200))));
            hm.push((depth, Kind::Hidden(gen::pat32(201))));
            check_listing(r, &hm, false);
            let mut x: Vec<(usize, Kind)> = vec![(depth, Kind::Hidden(gen::pat32(202))), (depth, Kind::Leaf(vec![0x54], 0xc0))];
            for d in (1..depth).rev() {
                x.push((d, Kind::Hidden(gen::pat32(d))));
            }
            check_listing(r, &x, false);
        }
    }
    // single node at depth 0 (tree with one leaf) and key-only spends
    check_listing(r, &[(0, Kind::Leaf(vec![0x51], 0xc4))], true);
    {
        let s = gen::secp();
        let (ik, _) = internal_keypair().x_only_public_key();
        let info = TaprootSpendInfo::new_key_spend(s, ik, None);
        if let Some((q, p)) = ref_output_key(&ik, None) {
            if info.output_key().into_inner() != q || info.output_key_parity() != p {
                r.violation("key-spend-output-key", json!("no merkle root"), "output key for key-only spend differs from P + H_tweak(P)G");
            }
        }
    }
    // (iii)
    huffman(r, thorough);
    r.assume("leaf scripts are 2-byte scripts from a small menu, hidden hashes from the pattern menu, one internal key pair; SHA-256/tagged hashes implemented independently; libsecp256k1 trusted for point arithmetic (two different API paths are compared)");
    r.assume("no Elements-generated taproot vector exists offline: the Elements tag strings ('TapLeaf/elements', 'TapBranch/elements', 'TapTweak/elements') are taken from the Elements taproot specification");
}

/// all valid DFS depth listings with n leaves
fn valid_shapes(n: usize) -> Vec<Vec<usize>> {
    fn rec(n: usize, d: usize) -> Vec<Vec<usize>> {
        if n == 1 {
            return vec![vec![d]];
        }
        let mut out = Vec::new();
        for l in 1..n {
            for a in rec(l, d + 1) {
                for b in rec(n - l, d + 1) {
                    let mut v = a.clone();
                    v.extend(b);
                    out.push(v);
                }
            }
        }
        out
    }
    rec(n, 0)
}

pub fn replay(case: &Value) -> String {
    let r = Report::new("C15", crate::engine::Tier::Quick, 0);
    match case_from_json(case) {
        Some(l) => check_listing(&r, &l, true),
        None => return "case is not a depth listing (Huffman cases: re-run the check)".into(),
    }
    let v = r.take_violations();
    if v.is_empty() { "HOLDS".into() } else { format!("VIOLATES {} ({})", v[0].1.class, v[0].1.detail) }
}
