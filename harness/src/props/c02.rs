//! C02 — txid / wtxid / block hash are the consensus hashes and ignore witness data.
//! Every transaction / header of the generators x every single-field modification, classified by
//! the reference encoder as witness-only / non-witness / neutral.

use crate::engine::{fnv, guard, hex, unhex, Report};
use crate::gen::{self, pat32};
use crate::oracle::model::*;
use crate::oracle::sha256::sha256d;
use rayon::prelude::*;
use serde_json::{json, Value};

pub type TxMod = (String, Box<dyn Fn(&mut RTx) + Send + Sync>);

fn other_value(v: &RValue) -> RValue {
    let f = gen::fixtures();
    match v {
        RValue::Null => RValue::Explicit(1),
        RValue::Explicit(x) => RValue::Explicit(x ^ 1),
        RValue::Conf(c) => RValue::Conf(if *c == f.comms[0] { f.comms[2] } else { f.comms[0] }),
    }
}
fn other_asset(v: &RAsset) -> RAsset {
    let f = gen::fixtures();
    match v {
        RAsset::Null => RAsset::Explicit(pat32(3)),
        RAsset::Explicit(x) => {
            let mut y = *x;
            y[31] ^= 1;
            RAsset::Explicit(y)
        }
        RAsset::Conf(c) => RAsset::Conf(if *c == f.gens[0] { f.gens[2] } else { f.gens[0] }),
    }
}
fn other_nonce(v: &RNonce) -> RNonce {
    let f = gen::fixtures();
    match v {
        RNonce::Null => RNonce::Explicit(pat32(3)),
        RNonce::Explicit(x) => {
            let mut y = *x;
            y[0] ^= 0x80;
            RNonce::Explicit(y)
        }
        RNonce::Conf(c) => RNonce::Conf(if *c == f.pks[0] { f.pks[2] } else { f.pks[0] }),
    }
}
fn other_proof(cur: &[u8], a: &[u8], b: &[u8]) -> Vec<u8> {
    if cur == a { b.to_vec() } else { a.to_vec() }
}

/// every single-field modification applicable to `t` (field-path list generated from the value)
pub fn tx_mods(t: &RTx) -> Vec<TxMod> {
    let f = gen::fixtures();
    let mut m: Vec<TxMod> = Vec::new();
    m.push(("version".into(), Box::new(|t| t.version = t.version.wrapping_add(1))));
    m.push(("lock_time".into(), Box::new(|t| t.lock_time ^= 0x0100)));
    for i in 0..t.ins.len() {
        let coinbase = t.ins[i].vout == 0xffff_ffff;
        m.push((format!("in{}.txid", i), Box::new(move |t| t.ins[i].txid[7] ^= 0x10)));
        if !coinbase {
            m.push((format!("in{}.vout", i), Box::new(move |t| t.ins[i].vout ^= 2)));
            m.push((format!("in{}.is_pegin", i), Box::new(move |t| t.ins[i].is_pegin = !t.ins[i].is_pegin)));
        }
        m.push((format!("in{}.script_sig", i), Box::new(move |t| t.ins[i].script_sig.push(0x51))));
        m.push((format!("in{}.sequence", i), Box::new(move |t| t.ins[i].sequence ^= 1)));
        if t.ins[i].issuance.is_some() {
            m.push((format!("in{}.issuance.nonce", i), Box::new(move |t| {
                let is = t.ins[i].issuance.as_mut().unwrap();
                is.nonce = if is.nonce == [0u8; 32] { *gen::tweak(801).as_ref() } else { [0u8; 32] };
            })));
            m.push((format!("in{}.issuance.entropy", i), Box::new(move |t| t.ins[i].issuance.as_mut().unwrap().entropy[31] ^= 1)));
            m.push((format!("in{}.issuance.amount", i), Box::new(move |t| {
                let is = t.ins[i].issuance.as_mut().unwrap();
                is.amount = other_value(&is.amount);
            })));
            m.push((format!("in{}.issuance.keys", i), Box::new(move |t| {
                let is = t.ins[i].issuance.as_mut().unwrap();
                is.keys = other_value(&is.keys);
            })));
            m.push((format!("in{}.issuance.remove", i), Box::new(move |t| t.ins[i].issuance = None)));
        } else if !coinbase {
            m.push((format!("in{}.issuance.add", i), Box::new(move |t| {
                t.ins[i].issuance = Some(RIssuance { nonce: [0u8; 32], entropy: pat32(2), amount: RValue::Explicit(9), keys: RValue::Null })
            })));
        }
        let (r0, r1) = (f.rps[0].clone(), f.rps[1].clone());
        m.push((format!("in{}.wit.amount_rp", i), Box::new(move |t| t.ins[i].wit.amount_rp = other_proof(&t.ins[i].wit.amount_rp, &r0, &r1))));
        let (r0, r1) = (f.rps[0].clone(), f.rps[1].clone());
        m.push((format!("in{}.wit.keys_rp", i), Box::new(move |t| t.ins[i].wit.keys_rp = other_proof(&t.ins[i].wit.keys_rp, &r0, &r1))));
        m.push((format!("in{}.wit.script_witness.push", i), Box::new(move |t| t.ins[i].wit.script_wit.push(vec![0xaa]))));
        m.push((format!("in{}.wit.pegin_witness.push", i), Box::new(move |t| t.ins[i].wit.pegin_wit.push(vec![]))));
        if !t.ins[i].wit.script_wit.is_empty() {
            m.push((format!("in{}.wit.script_witness.clear", i), Box::new(move |t| t.ins[i].wit.script_wit.clear())));
        }
        if !t.ins[i].wit.amount_rp.is_empty() {
            m.push((format!("in{}.wit.amount_rp.clear", i), Box::new(move |t| t.ins[i].wit.amount_rp.clear())));
        }
    }
    for j in 0..t.outs.len() {
        m.push((format!("out{}.asset", j), Box::new(move |t| t.outs[j].asset = other_asset(&t.outs[j].asset))));
        m.push((format!("out{}.value", j), Box::new(move |t| t.outs[j].value = other_value(&t.outs[j].value))));
        m.push((format!("out{}.nonce", j), Box::new(move |t| t.outs[j].nonce = other_nonce(&t.outs[j].nonce))));
        m.push((format!("out{}.script", j), Box::new(move |t| t.outs[j].script.push(0x6a))));
        let (s0, s1) = (f.sps[0].clone(), f.sps[1].clone());
        m.push((format!("out{}.wit.surjection_proof", j), Box::new(move |t| t.outs[j].surj = other_proof(&t.outs[j].surj, &s0, &s1))));
        let (r0, r1) = (f.rps[0].clone(), f.rps[1].clone());
        m.push((format!("out{}.wit.rangeproof", j), Box::new(move |t| t.outs[j].rp = other_proof(&t.outs[j].rp, &r0, &r1))));
        if !t.outs[j].rp.is_empty() {
            m.push((format!("out{}.wit.rangeproof.clear", j), Box::new(move |t| t.outs[j].rp.clear())));
        }
    }
    m
}

fn ids(t: &RTx) -> Result<([u8; 32], [u8; 32], bool), String> {
    let lib = to_tx(t);
    guard(|| (lib.txid().to_byte_array(), lib.wtxid().to_byte_array(), lib.has_witness()))
}

fn check_tx(r: &Report, t: &RTx) {
    r.eval(1);
    r.state(1);
    let stripped = t.enc_stripped();
    let full = t.enc_full();
    let exp_txid = sha256d(&stripped);
    let exp_wtxid = sha256d(&full);
    let case = |m: &str| json!({"tx": hex(&full), "mod": m});
    let (txid, wtxid, hw) = match ids(t) {
        Ok(x) => x,
        Err(p) => return r.violation("tx/panic", case(""), p),
    };
    r.trace(1);
    if txid != exp_txid {
        r.violation("tx/txid-not-sha256d-of-stripped", case(""), format!("txid={} expected={}", hex(&txid), hex(&exp_txid)));
    }
    if wtxid != exp_wtxid {
        r.violation("tx/wtxid-not-sha256d-of-full", case(""), format!("wtxid={} expected={}", hex(&wtxid), hex(&exp_wtxid)));
    }
    if (wtxid == txid) != !t.has_witness() || hw != t.has_witness() {
        r.violation("tx/wtxid-eq-txid-iff-no-witness", case(""), format!("has_witness lib={} ref={} equal={}", hw, t.has_witness(), wtxid == txid));
    }
    r.nontrivial(fnv(&full));
    for (name, f) in tx_mods(t) {
        let mut t2 = t.clone();
        f(&mut t2);
        r.trans(1);
        let s2 = t2.enc_stripped();
        let f2 = t2.enc_full();
        let class = if s2 != stripped { "non-witness" } else if f2 != full { "witness-only" } else { "neutral" };
        let (txid2, wtxid2, _) = match ids(&t2) {
            Ok(x) => x,
            Err(p) => {
                r.violation("tx/panic", case(&name), p);
                continue;
            }
        };
        let field = name.split('.').skip(1).collect::<Vec<_>>().join(".");
        let field = if field.is_empty() { name.clone() } else { field };
        r.outcome(&format!("{}:{}", field, class));
        match class {
            "witness-only" => {
                if txid2 != txid {
                    r.violation(format!("tx/witness-change-changes-txid/{}", field), case(&name), "txid changed by a witness-only modification");
                }
                if wtxid2 == wtxid {
                    r.violation(format!("tx/witness-change-keeps-wtxid/{}", field), case(&name), "wtxid unchanged by a witness modification");
                }
            }
            "non-witness" => {
                if txid2 == txid {
                    r.violation(format!("tx/field-not-in-txid/{}", field), case(&name), "txid unchanged by a non-witness modification");
                }
                if wtxid2 == wtxid {
                    r.violation(format!("tx/field-not-in-wtxid/{}", field), case(&name), "wtxid unchanged by a non-witness modification");
                }
            }
            _ => {
                if txid2 != txid || wtxid2 != wtxid {
                    r.violation(format!("tx/neutral-change-changes-id/{}", field), case(&name), "ids changed by a serialization-neutral modification");
                }
            }
        }
    }
}

pub type HMod = (String, Box<dyn Fn(&mut RHeader) + Send + Sync>);

fn params_mods(prefix: &str, get: fn(&mut RHeader) -> &mut RParams, p: &RParams) -> Vec<HMod> {
    let mut m: Vec<HMod> = Vec::new();
    match p {
        RParams::Null => {
            m.push((format!("{}.null->compact", prefix), Box::new(move |h| *get(h) = RParams::Compact { signblockscript: vec![], limit: 0, elided_root: [0; 32] })));
        }
        RParams::Compact { .. } => {
            m.push((format!("{}.signblockscript", prefix), Box::new(move |h| if let RParams::Compact { signblockscript, .. } = get(h) { signblockscript.push(1) })));
            m.push((format!("{}.limit", prefix), Box::new(move |h| if let RParams::Compact { limit, .. } = get(h) { *limit ^= 1 })));
            m.push((format!("{}.elided_root", prefix), Box::new(move |h| if let RParams::Compact { elided_root, .. } = get(h) { elided_root[5] ^= 1 })));
            m.push((format!("{}.compact->null", prefix), Box::new(move |h| *get(h) = RParams::Null)));
        }
        RParams::Full(_) => {
            m.push((format!("{}.signblockscript", prefix), Box::new(move |h| if let RParams::Full(f) = get(h) { f.signblockscript.push(1) })));
            m.push((format!("{}.limit", prefix), Box::new(move |h| if let RParams::Full(f) = get(h) { f.limit ^= 1 })));
            m.push((format!("{}.fedpeg_program", prefix), Box::new(move |h| if let RParams::Full(f) = get(h) { f.fedpeg_program.push(1) })));
            m.push((format!("{}.fedpegscript", prefix), Box::new(move |h| if let RParams::Full(f) = get(h) { f.fedpegscript.push(1) })));
            m.push((format!("{}.extension_space.push", prefix), Box::new(move |h| if let RParams::Full(f) = get(h) { f.ext.push(vec![]) })));
        }
    }
    m
}

fn cur(h: &mut RHeader) -> &mut RParams {
    match &mut h.ext {
        RExt::Dynafed { current, .. } => current,
        _ => unreachable!(),
    }
}
fn prop(h: &mut RHeader) -> &mut RParams {
    match &mut h.ext {
        RExt::Dynafed { proposed, .. } => proposed,
        _ => unreachable!(),
    }
}

pub fn header_mods(h: &RHeader) -> Vec<HMod> {
    let mut m: Vec<HMod> = Vec::new();
    m.push(("version".into(), Box::new(|h| h.version ^= 1)));
    m.push(("prev_blockhash".into(), Box::new(|h| h.prev[0] ^= 1)));
    m.push(("merkle_root".into(), Box::new(|h| h.merkle_root[31] ^= 0x80)));
    m.push(("time".into(), Box::new(|h| h.time ^= 0x10000)));
    m.push(("height".into(), Box::new(|h| h.height ^= 1)));
    match &h.ext {
        RExt::Proof { .. } => {
            m.push(("challenge".into(), Box::new(|h| if let RExt::Proof { challenge, .. } = &mut h.ext { challenge.push(0x51) })));
            m.push(("solution".into(), Box::new(|h| if let RExt::Proof { solution, .. } = &mut h.ext { solution.push(0x51) })));
            m.push(("solution.clear+1".into(), Box::new(|h| if let RExt::Proof { solution, .. } = &mut h.ext { *solution = vec![7] })));
        }
        RExt::Dynafed { current, proposed, .. } => {
            m.extend(params_mods("current", cur, current));
            m.extend(params_mods("proposed", prop, proposed));
            m.push(("signblock_witness.push".into(), Box::new(|h| if let RExt::Dynafed { witness, .. } = &mut h.ext { witness.push(vec![9]) })));
            m.push(("signblock_witness.item".into(), Box::new(|h| if let RExt::Dynafed { witness, .. } = &mut h.ext {
                if witness.is_empty() { witness.push(vec![]) } else { witness[0].push(3) }
            })));
        }
    }
    m
}

fn check_header(r: &Report, h: &RHeader) {
    r.eval(1);
    r.state(1);
    let full = h.enc_full();
    let forhash = h.enc_for_hash();
    let exp = sha256d(&forhash);
    let case = |m: &str| json!({"header": hex(&full), "mod": m});
    let lib = to_header(h);
    let got = match guard(|| lib.block_hash().to_byte_array()) {
        Ok(x) => x,
        Err(p) => return r.violation("header/panic", case(""), p),
    };
    r.trace(1);
    let kind = if h.is_dynafed() { "dynafed" } else { "legacy" };
    if got != exp {
        r.violation(format!("header/{}/hash-mismatch", kind), case(""), format!("block_hash={} expected={}", hex(&got), hex(&exp)));
    }
    // Block::block_hash == header.block_hash
    let blk = elements::Block { header: lib.clone(), txdata: vec![] };
    if blk.block_hash().to_byte_array() != got {
        r.violation("block/hash-differs-from-header", case(""), "Block::block_hash != BlockHeader::block_hash");
    }
    // clear_witness: same hash; second clear is a no-op; removes solution / signblock witness
    let mut c1 = lib.clone();
    c1.clear_witness();
    let mut c2 = c1.clone();
    c2.clear_witness();
    r.trans(2);
    if c1.block_hash().to_byte_array() != got {
        r.violation(format!("header/{}/clear_witness-changes-hash", kind), case("clear_witness"), "hash changed by clear_witness");
    }
    if c1 != c2 {
        r.violation(format!("header/{}/clear_witness-not-idempotent", kind), case("clear_witness"), "second clear_witness changed the header");
    }
    let mut hc = h.clone();
    match &mut hc.ext {
        RExt::Proof { solution, .. } => solution.clear(),
        RExt::Dynafed { witness, .. } => witness.clear(),
    }
    if elements::encode::serialize(&c1) != hc.enc_full() {
        r.violation(format!("header/{}/clear_witness-wrong-result", kind), case("clear_witness"), "clear_witness result is not the header without solution/witness");
    }
    r.nontrivial(fnv(&full));
    for (name, f) in header_mods(h) {
        let mut h2 = h.clone();
        f(&mut h2);
        r.trans(1);
        let class = if h2.enc_for_hash() != forhash { "non-witness" } else if h2.enc_full() != full { "witness-only" } else { "neutral" };
        let lib2 = to_header(&h2);
        let got2 = match guard(|| lib2.block_hash().to_byte_array()) {
            Ok(x) => x,
            Err(p) => {
                r.violation("header/panic", case(&name), p);
                continue;
            }
        };
        r.outcome(&format!("header.{}:{}", name, class));
        match class {
            "non-witness" if got2 == got => r.violation(format!("header/{}/field-not-in-hash/{}", kind, name), case(&name), "block hash unchanged by a non-witness modification"),
            "witness-only" | "neutral" if got2 != got => {
                r.violation(format!("header/{}/witness-in-hash/{}", kind, name), case(&name), "block hash changed by a witness-only modification")
            }
            _ => {}
        }
    }
}

fn selftest() -> Result<usize, String> {
    crate::oracle::parse::selftest_ids()
}

pub fn run(r: &Report) {
    match selftest() {
        Ok(n) => r.set_extra("oracle_selftest_vectors", json!(n)),
        Err(e) => return r.machinery(e),
    }
    r.set_rule(
        "every transaction of the structural generators (as C12) x every single-field modification from a field-path list \
         (version, lock time; per input txid, vout, pegin flag, script_sig, sequence, issuance nonce/entropy/amount/keys/add/remove, \
         4 witness fields set/changed/cleared; per output asset, value, nonce, script, 2 witness fields), each classified by the \
         reference encoder as witness-only / non-witness / neutral; every header of the generator (27 legacy + 75 dynafed) x every \
         single-field modification incl. each field of current/proposed params; clear_witness twice; all headers and a transaction subset again on one thread, forwards and backwards. non-trivial = distinct encodings",
    );
    let txs = crate::props::c12::all_txs(r);
    // the big-vector transactions make the modification loop quadratic; keep ids-only for those
    let (small, big): (Vec<_>, Vec<_>) = txs.into_iter().partition(|t| t.ins.len() + t.outs.len() <= 8);
    r.set_extra("transactions", json!(small.len() + big.len()));
    small.par_iter().for_each(|t| {
        let len = t.enc_full().len();
        if len <= 20_000 {
            check_tx(r, t);
        } else {
            check_tx_ids_only(r, t);
        }
    });
    big.par_iter().for_each(|t| check_tx_ids_only(r, t));
    // the repository's Elements-generated vectors, through the same modification product
    if let Ok(txt) = std::fs::read_to_string("/verif/vectors/ids.json") {
        let v: Value = serde_json::from_str(&txt).unwrap();
        let mut n = 0;
        for t in v["txs"].as_array().unwrap() {
            if let Some(rt) = crate::oracle::parse::parse_tx(&unhex(t["hex"].as_str().unwrap())) {
                // library decode must agree with the reference parse
                match elements::encode::deserialize::<elements::Transaction>(&rt.enc_full()) {
                    Ok(lib) if from_tx(&lib) == rt => {}
                    _ => r.violation("tx/library-decode-differs-from-reference-parse", json!({"tx": t["hex"]}), "pinned vector"),
                }
                check_tx(r, &rt);
                n += 1;
            }
        }
        for b in v["blocks"].as_array().unwrap() {
            if let Some(rb) = crate::oracle::parse::parse_block(&unhex(b["hex"].as_str().unwrap())) {
                check_header(r, &rb.header);
                for t in &rb.txs {
                    check_tx(r, t);
                }
                n += 1;
            }
        }
        r.set_extra("repository_vectors_explored", json!(n));
    }
    let hs = gen::headers();
    r.set_extra("headers", json!(hs.len()));
    hs.par_iter().for_each(|h| check_header(r, h));
    // histories on ONE thread (the ids are pure functions of the value; a memo keyed by data that does not determine the
    // serialization would make an id depend on the calls before it): all headers and the small transactions once more,
    // forwards and backwards; check_header / check_tx themselves evaluate base, modification, base back to back
    {
        let mut n_hist = 0u64;
        for h in hs.iter().chain(hs.iter().rev()) {
            check_header(r, h);
            n_hist += 1;
        }
        let seq: Vec<&RTx> = small.iter().filter(|t| t.enc_full().len() <= 1500).step_by(r.tier.pick(5, 1)).collect();
        for t in seq.iter().chain(seq.iter().rev()) {
            check_tx_ids_only(r, t);
            n_hist += 1;
        }
        r.set_extra("sequential_history_cases", json!(n_hist));
    }
    r.sample(json!({"example_modification_classes": ["in0.sequence:non-witness", "in0.wit.script_witness.push:witness-only", "header.solution:witness-only", "header.current.elided_root:non-witness"]}));
    r.assume("256-bit payloads from fixed menus; SHA-256 treated as collision-free when concluding that different serializations give different ids");
    r.assume("reference serialization = Elements wire format as implemented independently in oracle/model.rs (validated byte-for-byte against the library on all generated values in C01 and on the repository's Elements-generated transaction file)");
}

fn check_tx_ids_only(r: &Report, t: &RTx) {
    r.eval(1);
    r.state(1);
    r.trans(1);
    let full = t.enc_full();
    match ids(t) {
        Ok((txid, wtxid, _)) => {
            r.trace(1);
            if txid != sha256d(&t.enc_stripped()) {
                r.violation("tx/txid-not-sha256d-of-stripped", json!({"tx_len": full.len()}), "large tx");
            }
            if wtxid != sha256d(&full) {
                r.violation("tx/wtxid-not-sha256d-of-full", json!({"tx_len": full.len()}), "large tx");
            }
            r.nontrivial(fnv(&full));
        }
        Err(p) => r.violation("tx/panic", json!({"tx_len": full.len()}), p),
    }
}

pub fn replay(case: &Value) -> String {
    let r = Report::new("C02", crate::engine::Tier::Quick, 0);
    if let Some(h) = case["tx"].as_str() {
        match elements::encode::deserialize::<elements::Transaction>(&unhex(h)) {
            Ok(t) => check_tx(&r, &from_tx(&t)),
            Err(e) => return format!("cannot decode case: {:?}", e),
        }
    } else if let Some(h) = case["header"].as_str() {
        match elements::encode::deserialize::<elements::BlockHeader>(&unhex(h)) {
            Ok(hd) => check_header(&r, &from_header(&hd)),
            Err(e) => return format!("cannot decode case: {:?}", e),
        }
    }
    let v = r.take_violations();
    if v.is_empty() { "HOLDS".into() } else { format!("VIOLATES {} ({})", v[0].1.class, v[0].1.detail) }
}
