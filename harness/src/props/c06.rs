//! C06 — addresses round-trip through text, are canonical, and name exactly one network.

use crate::engine::{fnv, guard, Report};
use crate::gen::{self, pat32};
use crate::oracle::addr::{self, Variant};
use bech32::Fe32;
use elements::address::Payload;
use elements::bitcoin::hashes::Hash as _;
use elements::secp256k1_zkp as zkp;
use elements::{Address, AddressParams, PubkeyHash, ScriptHash};
use rayon::prelude::*;
use serde_json::{json, Value};
use std::str::FromStr;

pub const NETS: [&AddressParams; 3] = [&AddressParams::LIQUID, &AddressParams::ELEMENTS, &AddressParams::LIQUID_TESTNET];
pub const NET_NAMES: [&str; 3] = ["liquid", "elements", "liquid_testnet"];
/// (p2pkh, p2sh, blinded prefix, bech hrp, blech hrp) — written out from the network definitions
pub const NET_CONSTS: [(u8, u8, u8, &str, &str); 3] = [(57, 39, 12, "ex", "lq"), (235, 75, 4, "ert", "el"), (36, 19, 23, "tex", "tlq")];

pub fn blinders() -> Vec<Option<zkp::PublicKey>> {
    let f = gen::fixtures();
    vec![None, Some(zkp::PublicKey::from_slice(&f.pks[0]).unwrap()), Some(zkp::PublicKey::from_slice(&f.pks[1]).unwrap())]
}

pub fn hash20(i: usize) -> [u8; 20] {
    let p = pat32(i);
    let mut h = [0u8; 20];
    match i % 8 {
        4 => h.copy_from_slice(&p[..20]), // leading zero bytes -> leading '1's in base58
        7 => {}                           // all zero
        _ => h.copy_from_slice(&p[6..26]),
    }
    h
}

/// reference text form of a (standard or not) address description
pub fn ref_string(net: usize, payload: &RPayload, blinder: &Option<zkp::PublicKey>) -> String {
    let (pkh, sh, bl, bech, blech) = NET_CONSTS[net];
    match payload {
        RPayload::Pkh(h) | RPayload::Sh(h) => {
            let ver = if matches!(payload, RPayload::Pkh(_)) { pkh } else { sh };
            let mut v = Vec::new();
            if let Some(b) = blinder {
                v.push(bl);
                v.push(ver);
                v.extend_from_slice(&b.serialize());
            } else {
                v.push(ver);
            }
            v.extend_from_slice(h);
            addr::base58check_encode(&v)
        }
        RPayload::Wit(ver, prog) => match blinder {
            None => addr::encode_segwit(bech, *ver, prog, if *ver == 0 { Variant::Bech32 } else { Variant::Bech32m }),
            Some(b) => {
                let mut bytes = b.serialize().to_vec();
                bytes.extend_from_slice(prog);
                addr::encode_segwit(blech, *ver, &bytes, if *ver == 0 { Variant::Blech32 } else { Variant::Blech32m })
            }
        },
    }
}

#[derive(Clone, Debug, PartialEq, Eq)]
pub enum RPayload {
    Pkh([u8; 20]),
    Sh([u8; 20]),
    Wit(u8, Vec<u8>),
}

pub fn to_lib(net: usize, payload: &RPayload, blinder: &Option<zkp::PublicKey>) -> Address {
    Address {
        params: NETS[net],
        payload: match payload {
            RPayload::Pkh(h) => Payload::PubkeyHash(<PubkeyHash as elements::bitcoin::hashes::Hash>::from_byte_array(*h)),
            RPayload::Sh(h) => Payload::ScriptHash(ScriptHash::from_byte_array(*h)),
            RPayload::Wit(v, p) => Payload::WitnessProgram { version: Fe32::try_from(*v).unwrap(), program: p.clone() },
        },
        blinding_pubkey: *blinder,
    }
}

pub fn is_standard(a: &Address) -> Result<(), String> {
    match &a.payload {
        Payload::PubkeyHash(_) | Payload::ScriptHash(_) => Ok(()),
        Payload::WitnessProgram { version, program } => {
            let v = version.to_u8();
            if v > 16 {
                return Err(format!("witness version {}", v));
            }
            if program.len() < 2 || program.len() > 40 {
                return Err(format!("v{} program of {} bytes", v, program.len()));
            }
            if v == 0 && program.len() != 20 && program.len() != 32 {
                return Err(format!("v0 program of {} bytes", program.len()));
            }
            Ok(())
        }
    }
}

fn is_segwit_text(s: &str) -> bool {
    let l = s.to_ascii_lowercase();
    NET_CONSTS.iter().any(|c| l.starts_with(&format!("{}1", c.3)) || l.starts_with(&format!("{}1", c.4)))
}

/// Invariants that must hold for ANY string: if it parses, the address is standard, re-displays to the
/// canonical form of the input, and it parses under exactly one network's parameters.
pub fn check_any_string(r: &Report, s: &str, origin: &str) -> bool {
    r.trans(1);
    crate::engine::crash::crumb("address-parse", s.as_bytes());
    // the serde string deserializer is a third text entry point: it must accept exactly what from_str accepts
    {
        use serde::de::IntoDeserializer;
        use serde::Deserialize;
        let via_serde = guard(|| {
            let d: serde::de::value::StrDeserializer<serde::de::value::Error> = s.into_deserializer();
            Address::deserialize(d).ok()
        });
        let direct = guard(|| Address::from_str(s).ok());
        if via_serde != direct {
            r.violation(format!("serde-string-deserializer-differs-from-from_str/{}", origin), json!({"string": s, "origin": origin}), format!("serde: {:?}; from_str: {:?}", via_serde.map(|x| x.map(|a| a.to_string())), direct.map(|x| x.map(|a| a.to_string()))));
        }
    }
    let res = guard(|| {
        let a = Address::from_str(s);
        let per: Vec<Result<Address, _>> = NETS.iter().map(|p| Address::parse_with_params(s, p)).collect();
        (a, per)
    });
    let case = || json!({"string": s, "origin": origin});
    // the blech32 segwit decoder is an observation point of its own: whatever it accepts is a blinded segwit payload
    // (33-byte key + program) of version 0..16 with a standard program length
    if let Ok(Ok(seg)) = guard(|| elements::blech32::decode::SegwitHrpstring::new(s).map(|h| (h.witness_version().to_u8(), h.byte_iter().count()))) {
        r.trans(1);
        let (ver, n) = seg;
        let prog = n as i64 - 33;
        if ver > 16 || prog < 2 || prog > 40 || (ver == 0 && prog != 20 && prog != 32) {
            r.violation(format!("blech32-decoder-accepts-nonstandard/{}", origin), case(), format!("SegwitHrpstring::new accepts witness version {} with a {}-byte payload", ver, n));
        }
    }
    match res {
        Err(p) => {
            r.violation(format!("panic@{}", crate::engine::panic_site(&p)), case(), p);
            false
        }
        Ok((a, per)) => {
            let n_ok = per.iter().filter(|x| x.is_ok()).count();
            if n_ok > 1 {
                r.violation(format!("parses-under-{}-networks/{}", n_ok, origin), case(), "string parses under more than one network's parameters");
            }
            match &a {
                Ok(addr) => {
                    r.acc(true);
                    if let Err(why) = is_standard(addr) {
                        r.violation(format!("accepted-nonstandard/{}/{}", origin, if addr.blinding_pubkey.is_some() { "blinded" } else { "unblinded" }), case(), format!("parsed address holds {}", why));
                    }
                    let canon = if is_segwit_text(s) { s.to_ascii_lowercase() } else { s.to_string() };
                    let disp = addr.to_string();
                    if disp != canon {
                        r.violation(format!("accepted-noncanonical/{}", origin), case(), format!("parses, but displays as {}", disp));
                    }
                    // the owning network must accept it with the same result; no other may
                    let idx = NETS.iter().position(|p| std::ptr::eq(*p, addr.params) || *p == addr.params);
                    match idx {
                        Some(i) => {
                            if per[i].as_ref().ok() != Some(addr) {
                                r.violation(format!("from_str-vs-parse_with_params/{}", origin), case(), "from_str accepted but parse_with_params under the same network did not agree");
                            }
                        }
                        None => r.violation("unknown-params", case(), "parsed address carries unknown params"),
                    }
                    true
                }
                Err(_) => {
                    r.acc(false);
                    if n_ok > 0 {
                        r.violation(format!("parse_with_params-accepts-what-from_str-rejects/{}", origin), case(), "inconsistent acceptance");
                    }
                    false
                }
            }
        }
    }
}

/// Oracle for a standard address value
fn check_valid(r: &Report, net: usize, payload: &RPayload, blinder: &Option<zkp::PublicKey>) {
    r.eval(1);
    r.state(1);
    let a = to_lib(net, payload, blinder);
    let exp = ref_string(net, payload, blinder);
    let kind = match payload {
        RPayload::Pkh(_) => "p2pkh".to_string(),
        RPayload::Sh(_) => "p2sh".to_string(),
        RPayload::Wit(v, _) => format!("wit-v{}", if *v == 0 { "0" } else { "1+" }),
    };
    let kind = format!("{}/{}", kind, if blinder.is_some() { "blinded" } else { "unblinded" });
    let case = || json!({"net": NET_NAMES[net], "payload": format!("{:?}", payload), "blinded": blinder.is_some(), "reference": exp});
    let s = match guard(|| a.to_string()) {
        Ok(s) => s,
        Err(p) => return r.violation(format!("display-panic/{}", kind), case(), p),
    };
    r.trace(1);
    if s != exp {
        r.violation(format!("display-differs-from-reference/{}", kind), case(), format!("lib={} ref={}", s, exp));
        return;
    }
    r.nontrivial(fnv(s.as_bytes()));
    match guard(|| Address::from_str(&s)) {
        Ok(Ok(b)) if b == a => {}
        Ok(Ok(_)) => r.violation(format!("roundtrip-differs/{}", kind), case(), "from_str(to_string(a)) != a"),
        Ok(Err(e)) => r.violation(format!("roundtrip-rejected/{}", kind), case(), format!("{:?}", e)),
        Err(p) => r.violation(format!("parse-panic/{}", kind), case(), p),
    }
    for (i, p) in NETS.iter().enumerate() {
        r.trans(1);
        match guard(|| Address::parse_with_params(&s, p)) {
            Ok(Ok(b)) => {
                if i != net {
                    r.violation(format!("parses-under-foreign-network/{}", kind), case(), format!("{} accepted under {}", s, NET_NAMES[i]));
                } else if b != a {
                    r.violation(format!("roundtrip-differs/{}", kind), case(), "parse_with_params result differs");
                }
            }
            Ok(Err(_)) => {
                if i == net {
                    r.violation(format!("own-network-rejects/{}", kind), case(), format!("{} rejected under its own network", s));
                }
            }
            Err(pn) => r.violation(format!("parse-panic/{}", kind), case(), pn),
        }
    }
    if let RPayload::Wit(..) = payload {
        let up = s.to_ascii_uppercase();
        r.trans(1);
        match guard(|| Address::parse_with_params(&up, NETS[net])) {
            Ok(Ok(b)) if b == a => {}
            Ok(_) => r.violation(format!("uppercase-rejected-by-parse_with_params/{}", kind), case(), format!("upper-case form {} does not parse to the same address under its own network's parameters", up)),
            Err(p) => r.violation(format!("parse-panic/{}", kind), case(), p),
        }
        match guard(|| Address::from_str(&up)) {
            Ok(Ok(b)) if b == a => {
                if b.to_string() != s {
                    r.violation(format!("uppercase-not-canonicalised/{}", kind), case(), "display of upper-case parse is not the lower-case string");
                }
            }
            Ok(_) => r.violation(format!("uppercase-rejected-or-differs/{}", kind), case(), format!("upper-case form {} does not parse to the same address", up)),
            Err(p) => r.violation(format!("parse-panic/{}", kind), case(), p),
        }
        // mixed case must not parse
        let mut mixed = s.clone().into_bytes();
        let last = mixed.len() - 1;
        mixed[last] = mixed[last].to_ascii_uppercase();
        let mixed = String::from_utf8(mixed).unwrap();
        if mixed != s {
            check_any_string(r, &mixed, "mixed-case");
        }
    }
    check_any_string(r, &s, "valid");
    if r.sample_room() && blinder.is_some() {
        r.sample(json!({"net": NET_NAMES[net], "payload": format!("{:?}", payload), "string": s}));
    }
}

pub fn run(r: &Report) {
    match addr::selftest() {
        Ok(n) => r.set_extra("oracle_selftest_vectors", json!(n)),
        Err(e) => return r.machinery(e),
    }
    r.set_rule(
        "standard addresses: {p2pkh,p2sh} x 8 hash patterns, witness v0 x {20,32}, v1..16 x every length 2..40, x 2 contents x \
         {unblinded, even-Y blinder, odd-Y blinder} x 3 networks: display == independent reference encoder, from_str / parse_with_params \
         round trip, upper-case form, exactly one network. near-miss strings built by the reference encoder with VALID checksums: \
         every version 0..31 x every program length 0..42 under each checksum variant (so wrong variant, under/over-long programs, \
         v0 lengths not 20/32, versions 17..31), non-zero / over-long padding, mixed case, foreign and mismatched HRPs, base58 with wrong \
         payload lengths, foreign inner prefix, invalid blinding keys: if a string parses, the address must be standard and re-display \
         to the canonical form. non-trivial = distinct valid address strings",
    );
    let bl = blinders();
    let mut jobs: Vec<(usize, RPayload, Option<zkp::PublicKey>)> = Vec::new();
    for net in 0..3 {
        for b in &bl {
            for i in 0..r.tier.pick(8usize, 64) {
                let mut h = hash20(i);
                if i >= 8 {
                    h[i % 20] ^= (i / 8) as u8; // further leading-zero / bit patterns
                    if i % 3 == 0 {
                        h[0] = 0;
                        h[1] = 0;
                    }
                }
                jobs.push((net, RPayload::Pkh(h), *b));
                jobs.push((net, RPayload::Sh(h), *b));
            }
            for v in 0..=16u8 {
                let lens: Vec<usize> = if v == 0 { vec![20, 32] } else { (2..=40).collect() };
                for l in lens {
                    for c in 0..r.tier.pick(2u8, 12) {
                        jobs.push((net, RPayload::Wit(v, gen::blob(l, c.wrapping_mul(50).wrapping_add(v))), *b));
                    }
                }
            }
        }
    }
    r.set_extra("standard_addresses", json!(jobs.len()));
    jobs.par_iter().for_each(|(n, p, b)| check_valid(r, *n, p, b));
    // histories on ONE thread: the same payload under a blinding key and then under its negation (same x coordinate, other
    // parity), under another network, and unblinded, back to back in both orders — a parser that remembers anything about
    // the address it handled last must still give each string its own address
    {
        let k = zkp::PublicKey::from_slice(&gen::fixtures().pks[0]).unwrap();
        let seq_blinders = [Some(k), Some(k.negate(gen::secp())), None, Some(k)];
        let payloads = [RPayload::Pkh(hash20(1)), RPayload::Sh(hash20(2)), RPayload::Wit(0, gen::blob(20, 1)), RPayload::Wit(0, gen::blob(32, 2)), RPayload::Wit(1, gen::blob(32, 3)), RPayload::Wit(16, gen::blob(40, 4))];
        let mut n_seq = 0u64;
        for p in &payloads {
            for net in 0..3usize {
                for b in seq_blinders.iter().chain(seq_blinders.iter().rev()) {
                    check_valid(r, net, p, b);
                    check_valid(r, (net + 1) % 3, p, b);
                    n_seq += 2;
                }
            }
        }
        r.add_extra_count("sequential_history_addresses", n_seq);
    }

    // constructor functions
    {
        let s = gen::secp();
        let pk = elements::bitcoin::PublicKey::new(zkp::PublicKey::from_secret_key(s, &gen::sk(77)));
        let script = elements::Script::from(vec![0x51, 0x52]);
        let (xonly, _) = zkp::PublicKey::from_secret_key(s, &gen::sk(78)).x_only_public_key();
        for net in 0..3 {
            for b in &bl {
                let list = vec![
                    Address::p2pkh(&pk, *b, NETS[net]),
                    Address::p2sh(&script, *b, NETS[net]),
                    Address::p2wpkh(&pk, *b, NETS[net]),
                    Address::p2shwpkh(&pk, *b, NETS[net]),
                    Address::p2wsh(&script, *b, NETS[net]),
                    Address::p2shwsh(&script, *b, NETS[net]),
                    Address::p2tr(s, xonly, None, *b, NETS[net]),
                    Address::p2tr(s, xonly, Some(elements::taproot::TapNodeHash::from_byte_array(pat32(1))), *b, NETS[net]),
                    Address::p2tr_tweaked(elements::schnorr::TweakedPublicKey::new(xonly), *b, NETS[net]),
                ];
                for a in list {
                    let payload = match &a.payload {
                        Payload::PubkeyHash(h) => RPayload::Pkh(elements::bitcoin::hashes::Hash::to_byte_array(*h)),
                        Payload::ScriptHash(h) => RPayload::Sh(h.to_byte_array()),
                        Payload::WitnessProgram { version, program } => RPayload::Wit(version.to_u8(), program.clone()),
                    };
                    if to_lib(net, &payload, b) != a {
                        r.violation("constructor/fields", json!(a.to_string()), "constructor output does not equal the struct built from its own fields");
                    }
                    check_valid(r, net, &payload, b);
                }
            }
        }
    }

    // near misses with valid checksums
    let mut near: Vec<(String, &'static str)> = Vec::new();
    let f = gen::fixtures();
    for net in 0..3 {
        let (pkh, sh, blp, bech, blech) = NET_CONSTS[net];
        for ver in 0..32u8 {
            for len in 0..=42usize {
                let prog = gen::blob(len, ver);
                for var in [Variant::Bech32, Variant::Bech32m] {
                    near.push((addr::encode_segwit(bech, ver, &prog, var), "segwit-grid"));
                }
                for pkb in [&f.pks[0], &f.pks[1]] {
                    let mut bytes = pkb.to_vec();
                    bytes.extend_from_slice(&prog);
                    for var in [Variant::Blech32, Variant::Blech32m] {
                        near.push((addr::encode_segwit(blech, ver, &bytes, var), "blinded-segwit-grid"));
                    }
                }
            }
        }
        // blinded hrp with fewer than 33 bytes of data, and invalid blinding keys
        for len in [0usize, 1, 2, 20, 32, 33, 34] {
            for ver in [0u8, 1] {
                let var = if ver == 0 { Variant::Blech32 } else { Variant::Blech32m };
                near.push((addr::encode_segwit(blech, ver, &gen::blob(len, 9), var), "blinded-short-data"));
            }
        }
        for first in [0x04u8, 0x00, 0x05, 0x02] {
            let mut bytes = vec![first];
            bytes.extend_from_slice(&[0xff; 32]); // x >= p: invalid key even with 02
            bytes.extend_from_slice(&gen::blob(20, 1));
            near.push((addr::encode_segwit(blech, 0, &bytes, Variant::Blech32), "blinded-invalid-key"));
        }
        // HRP / checksum family mismatches
        let prog = gen::blob(20, 3);
        let mut bytes = f.pks[0].to_vec();
        bytes.extend_from_slice(&prog);
        near.push((addr::encode_segwit(bech, 0, &bytes, Variant::Bech32), "bech-hrp-with-blinded-payload"));
        near.push((addr::encode_segwit(bech, 0, &prog, Variant::Blech32), "bech-hrp-with-blech-checksum"));
        near.push((addr::encode_segwit(blech, 0, &bytes, Variant::Bech32), "blech-hrp-with-bech-checksum"));
        near.push((addr::encode_segwit("bc", 0, &prog, Variant::Bech32), "foreign-hrp"));
        near.push((addr::encode_segwit(&bech.to_uppercase(), 0, &prog, Variant::Bech32), "uppercase-hrp-lowercase-data"));
        // upper-case HRP in front of a lower-case data part: checksum computed over the lower-case HRP (as a decoder
        // that lower-cases would) and over the upper-case one
        for (hrp, payload, var) in [(bech, prog.clone(), Variant::Bech32), (blech, bytes.clone(), Variant::Blech32)] {
            let lower = addr::encode_segwit(hrp, 0, &payload, var);
            let mixed = format!("{}{}", hrp.to_uppercase(), &lower[hrp.len()..]);
            near.push((mixed, "uppercase-hrp-lowercase-data"));
            near.push((addr::encode_segwit(&hrp.to_uppercase(), 0, &payload, var), "uppercase-hrp-lowercase-data"));
            // truncations and extensions of the HRP, with a checksum that is valid for that HRP
            let mut variants: Vec<String> = Vec::new();
            for cut in 1..hrp.len() {
                variants.push(hrp[..cut].to_string());
                variants.push(hrp[cut..].to_string());
            }
            for extra in ["x", "q", "1", "2"] {
                variants.push(format!("{}{}", hrp, extra));
                variants.push(format!("{}{}", extra, hrp));
            }
            for h in variants {
                // skip variants that are themselves a built-in HRP of this or another network
                if NET_CONSTS.iter().any(|c| c.3 == h || c.4 == h) {
                    continue;
                }
                for ver in [0u8, 1] {
                    let v = match (var.blinded(), ver) {
                        (false, 0) => Variant::Bech32,
                        (false, _) => Variant::Bech32m,
                        (true, 0) => Variant::Blech32,
                        (true, _) => Variant::Blech32m,
                    };
                    let pl = if ver == 0 { payload.clone() } else { let mut x = payload.clone(); x.extend_from_slice(&[7u8; 12]); x };
                    near.push((addr::encode_segwit(&h, ver, &pl, v), "hrp-truncated-or-extended"));
                }
            }
        }
        // padding: non-zero padding bits, and an extra zero group
        for (ver, plen, var) in [(0u8, 20usize, Variant::Bech32), (1, 32, Variant::Bech32m), (1, 3, Variant::Bech32m)] {
            let prog = gen::blob(plen, 5);
            let mut d = vec![ver];
            d.extend(addr::to5(&prog));
            let last = d.len() - 1;
            let mut d1 = d.clone();
            d1[last] |= 1;
            near.push((addr::encode5(bech, &d1, var), "nonzero-padding"));
            let mut d2 = d.clone();
            d2.push(0);
            near.push((addr::encode5(bech, &d2, var), "extra-padding-group"));
            let mut bytes = f.pks[1].to_vec();
            bytes.extend_from_slice(&prog);
            let mut d = vec![ver];
            d.extend(addr::to5(&bytes));
            let bvar = if ver == 0 { Variant::Blech32 } else { Variant::Blech32m };
            let last = d.len() - 1;
            let mut d1 = d.clone();
            d1[last] |= 1;
            near.push((addr::encode5(blech, &d1, bvar), "nonzero-padding"));
            let mut d2 = d.clone();
            d2.push(0);
            near.push((addr::encode5(blech, &d2, bvar), "extra-padding-group"));
        }
        // every single padding bit, at every program length, unblinded and blinded
        for ver in [0u8, 1, 16] {
            let lens: Vec<usize> = if ver == 0 { vec![20, 32] } else { (2..=40).collect() };
            for plen in lens {
                let prog = gen::blob(plen, ver + 3);
                for blinded in [false, true] {
                    let mut payload = if blinded { f.pks[0].to_vec() } else { vec![] };
                    payload.extend_from_slice(&prog);
                    let mut d = vec![ver];
                    d.extend(addr::to5(&payload));
                    let pad_bits = (d.len() - 1) * 5 - payload.len() * 8;
                    let var = match (blinded, ver == 0) {
                        (false, true) => Variant::Bech32,
                        (false, false) => Variant::Bech32m,
                        (true, true) => Variant::Blech32,
                        (true, false) => Variant::Blech32m,
                    };
                    for bit in 0..pad_bits {
                        let mut d1 = d.clone();
                        let last = d1.len() - 1;
                        d1[last] |= 1 << bit;
                        near.push((addr::encode5(if blinded { blech } else { bech }, &d1, var), "nonzero-padding"));
                    }
                }
            }
        }
        // empty data part / version only
        for var in [Variant::Bech32, Variant::Bech32m] {
            near.push((addr::encode5(bech, &[], var), "empty-data"));
            near.push((addr::encode5(bech, &[0], var), "version-only"));
        }
        for var in [Variant::Blech32, Variant::Blech32m] {
            near.push((addr::encode5(blech, &[], var), "empty-data"));
            near.push((addr::encode5(blech, &[1], var), "version-only"));
        }
        // base58 near misses
        for hl in [0usize, 19, 21, 32] {
            let mut v = vec![pkh];
            v.extend_from_slice(&gen::blob(hl, 1));
            near.push((addr::base58check_encode(&v), "base58-wrong-hash-length"));
            let mut v = vec![blp, sh];
            v.extend_from_slice(&f.pks[0]);
            v.extend_from_slice(&gen::blob(hl, 2));
            near.push((addr::base58check_encode(&v), "base58-blinded-wrong-hash-length"));
        }
        for other in 0..3 {
            if other != net {
                let mut v = vec![blp, NET_CONSTS[other].0];
                v.extend_from_slice(&f.pks[0]);
                v.extend_from_slice(&hash20(1));
                near.push((addr::base58check_encode(&v), "base58-blinded-foreign-inner-prefix"));
                // blinded prefix of this net nested twice
                let mut v = vec![blp, blp];
                v.extend_from_slice(&f.pks[0]);
                v.extend_from_slice(&hash20(1));
                near.push((addr::base58check_encode(&v), "base58-blinded-prefix-twice"));
            }
        }
        let mut v = vec![blp, pkh, 0x04];
        v.extend_from_slice(&[0x11; 32]);
        v.extend_from_slice(&hash20(2));
        near.push((addr::base58check_encode(&v), "base58-blinded-invalid-key"));
        near.push((addr::base58check_encode(&[]), "base58-empty-payload"));
        near.push((addr::base58check_encode(&[blp]), "base58-prefix-only"));
        near.push((addr::base58check_encode(&[pkh]), "base58-prefix-only"));
        // bad base58 checksum
        let mut v = vec![sh];
        v.extend_from_slice(&hash20(3));
        let mut s = addr::base58check_encode(&v).into_bytes();
        let l = s.len() - 1;
        s[l] = if s[l] == b'2' { b'3' } else { b'2' };
        near.push((String::from_utf8(s).unwrap(), "base58-bad-checksum"));
    }
    for ver in 0..=255u8 {
        // every base58 version byte with a 20-byte hash: only the six known ones may parse
        let mut v = vec![ver];
        v.extend_from_slice(&hash20(2));
        near.push((addr::base58check_encode(&v), "base58-version-byte-sweep"));
    }
    near.push((String::new(), "empty-string"));
    near.push(("1".into(), "separator-only"));
    r.set_extra("near_miss_strings", json!(near.len()));
    let accepted: u64 = near.par_iter().map(|(s, o)| check_any_string(r, s, o) as u64).sum();
    r.set_extra("near_miss_accepted_as_standard", json!(accepted));
    for (s, o) in near.iter().filter(|(_, o)| *o == "blinded-segwit-grid").take(2) {
        r.sample(json!({"near_miss": s, "origin": o}));
    }
    r.assume("20-byte hashes from an 8-pattern menu, witness programs from 2 byte patterns per length, blinding keys: one even-Y and one odd-Y key");
    r.assume("reference codecs validated on the repository's 42 pinned address strings and BIP173/350 vectors");
}

pub fn replay(case: &Value) -> String {
    let r = Report::new("C06", crate::engine::Tier::Quick, 0);
    if let Some(s) = case["string"].as_str() {
        check_any_string(&r, s, case["origin"].as_str().unwrap_or("replay"));
    } else if let Some(s) = case["reference"].as_str() {
        check_any_string(&r, s, "valid");
        match Address::from_str(s) {
            Ok(a) => {
                if a.to_string() != s {
                    return format!("VIOLATES display {} != reference {}", a, s);
                }
            }
            Err(e) => return format!("VIOLATES reference string {} rejected: {:?}", s, e),
        }
    }
    let v = r.take_violations();
    if v.is_empty() { "HOLDS".into() } else { format!("VIOLATES {} ({})", v[0].1.class, v[0].1.detail) }
}
