//! C09 — multi-party PSET blinding balances for every split and order of blinders.
//! Protocol state space: every set partition of inputs among 1..3 parties, 1..2 blinded outputs per
//! party, optional explicit output + fee, every order of the non-last parties and every choice of
//! last party, with a serialize/deserialize hop in every transition.

use crate::engine::{fnv, guard, hex, permutations, DetRng, Report};
use crate::gen::{self, secp};
use crate::props::c04::{asset_a, asset_b, template_script};
use crate::psetgen::btc_pk;
use elements::confidential::{Asset, AssetBlindingFactor, Nonce, Value as CValue, ValueBlindingFactor};
use elements::encode::{deserialize, serialize};
use elements::pset::{Input, Output, PartiallySignedTransaction as Pset};
use elements::secp256k1_zkp as zkp;
use elements::{AssetId, BlindAssetProofs, BlindValueProofs, OutPoint, Script, TxOut, TxOutSecrets, TxOutWitness, Txid};
use rayon::prelude::*;
use serde::{Deserialize, Serialize};
use serde_json::{json, Value};
use std::collections::HashMap;

#[derive(Clone, Debug, Serialize, Deserialize, PartialEq, Eq, Hash)]
pub struct Proto {
    /// per input: (asset 0/1, confidential?, owner party)
    pub inputs: Vec<(u8, bool, usize)>,
    /// per party: number of blinded outputs (1..2)
    pub outs_per_party: Vec<usize>,
    /// an additional explicit, unblinded output
    pub extra_explicit: bool,
    /// the output order: blinded outputs first / fee first
    pub fee_first: bool,
    pub rng_stream: u64,
    /// 0 = none; 1 = explicit new issuance (amount) on input 0, issued asset sent to one blinded output of that input's owner
    /// (+ an explicit remainder); 2 = same with reissuance tokens (explicit token output); 3 = tokens sent to a blinded output
    #[serde(default)]
    pub issuance: u8,
    /// value magnitude class of the blinded outputs: 0 = hundreds, 1 = around 2^32, 2 = around 2^52
    #[serde(default)]
    pub magnitude: u8,
    /// inputs (bit mask) that additionally carry the full previous transaction (non_witness_utxo) next to witness_utxo
    #[serde(default)]
    pub nonwit_mask: u8,
}

pub struct Built {
    pub pset: Pset,
    pub utxos: Vec<TxOut>,
    pub secrets: Vec<TxOutSecrets>,
    /// per output: (owner party, receiver secret key) for blinded outputs
    pub marked: Vec<Option<(usize, zkp::SecretKey)>>,
    pub out_asset_value: Vec<(AssetId, u64)>,
}

/// asset menu: 0 = A, 1 = B, 2 = the asset issued by input 0, 3 = its reissuance token (unblinded issuance)
fn aid_with(a: u8, first_outpoint: OutPoint) -> AssetId {
    match a {
        0 => asset_a(),
        1 => asset_b(),
        _ => {
            let entropy = AssetId::generate_asset_entropy(first_outpoint, elements::ContractHash::from_byte_array(gen::pat32(6)));
            if a == 2 { AssetId::from_entropy(entropy) } else { AssetId::reissuance_token_from_entropy(entropy, false) }
        }
    }
}

fn aid(a: u8) -> AssetId {
    assert!(a < 2);
    aid_with(a, OutPoint::default())
}

pub fn build(p: &Proto) -> Built {
    let s = secp();
    let k = p.outs_per_party.len();
    // outputs
    struct O {
        asset: u8,
        value: u64,
        party: Option<usize>,
        blinder_index: u32,
    }
    let mut outs: Vec<O> = Vec::new();
    for party in 0..k {
        let own: Vec<usize> = p.inputs.iter().enumerate().filter(|(_, x)| x.2 == party).map(|(i, _)| i).collect();
        for j in 0..p.outs_per_party[party] {
            // asset of one of the party's inputs, blinder index one of its inputs
            let inp = own[j % own.len()];
            let base = [0u64, 1 << 32, (1 << 52) - 1000][p.magnitude as usize % 3];
            outs.push(O { asset: p.inputs[inp].0, value: base + 100 + (party * 10 + j) as u64, party: Some(party), blinder_index: own[(j + 1) % own.len()] as u32 });
        }
    }
    // every input asset needs an output; explicit outputs for uncovered assets, plus the optional extra one
    for a in 0..2u8 {
        if p.inputs.iter().any(|x| x.0 == a) && !outs.iter().any(|o| o.asset == a) {
            outs.push(O { asset: a, value: 55, party: None, blinder_index: 0 });
        }
    }
    if p.extra_explicit {
        outs.push(O { asset: 0, value: 7, party: None, blinder_index: 0 });
    }
    // issuance pseudo-input on input 0: the issued asset (and token) leave through outputs of input 0's owner
    let (issue_amount, issue_tokens) = match p.issuance {
        0 => (0u64, 0u64),
        1 => (55, 0),
        _ => (55, 2),
    };
    if p.issuance > 0 {
        let owner = p.inputs[0].2;
        outs.push(O { asset: 2, value: 40, party: Some(owner), blinder_index: 0 });
        outs.push(O { asset: 2, value: 15, party: None, blinder_index: 0 });
        if issue_tokens > 0 {
            outs.push(O { asset: 3, value: issue_tokens, party: if p.issuance == 3 { Some(owner) } else { None }, blinder_index: 0 });
        }
    }
    let fee = 3u64;
    let mut need = [0u64; 4];
    for o in &outs {
        need[o.asset as usize] += o.value;
    }
    need[0] += fee;
    debug_assert!(p.issuance == 0 || (need[2] == issue_amount && need[3] == issue_tokens));
    // inputs
    let mut utxos = Vec::new();
    let mut secrets = Vec::new();
    let mut pset = Pset::new_v2();
    for (i, (a, conf, _owner)) in p.inputs.iter().enumerate() {
        let same: Vec<usize> = p.inputs.iter().enumerate().filter(|(_, x)| x.0 == *a).map(|(k, _)| k).collect();
        let value = if same[0] == i { need[*a as usize] - (same.len() as u64 - 1) } else { 1 };
        let asset = aid(*a);
        let (abf, vbf) = if *conf {
            (AssetBlindingFactor::from_slice(gen::tweak(8100 + i as u64).as_ref()).unwrap(), ValueBlindingFactor::from_slice(gen::tweak(8200 + i as u64).as_ref()).unwrap())
        } else {
            (AssetBlindingFactor::zero(), ValueBlindingFactor::zero())
        };
        let utxo = TxOut {
            asset: if *conf { Asset::new_confidential(s, asset, abf) } else { Asset::Explicit(asset) },
            value: if *conf { CValue::new_confidential_from_assetid(s, value, asset, vbf, abf) } else { CValue::Explicit(value) },
            nonce: Nonce::Null,
            script_pubkey: template_script(2, 200 + i as u8),
            witness: TxOutWitness::default(),
        };
        let mut inp = Input::from_prevout(OutPoint::new(Txid::from_byte_array(gen::pat32(4 + i)), i as u32));
        if (p.nonwit_mask >> i) & 1 == 1 {
            // the full previous transaction as well (its output i is the spent one, its txid the spent txid)
            let mut outs_prev = vec![TxOut::new_fee(1, asset_a()); i];
            outs_prev.push(utxo.clone());
            let prev = elements::Transaction { version: 2, lock_time: elements::LockTime::ZERO, input: vec![], output: outs_prev };
            inp = Input::from_prevout(OutPoint::new(prev.txid(), i as u32));
            inp.non_witness_utxo = Some(prev);
        }
        inp.witness_utxo = Some(utxo.clone());
        if i == 0 && p.issuance > 0 {
            inp.issuance_value_amount = Some(issue_amount);
            if issue_tokens > 0 {
                inp.issuance_inflation_keys = Some(issue_tokens);
            }
            inp.issuance_asset_entropy = Some(gen::pat32(6));
            inp.blinded_issuance = Some(0); // the PSET blinders refuse inputs whose issuance is to be blinded
        }
        pset.add_input(inp);
        utxos.push(utxo);
        secrets.push(TxOutSecrets::new(asset, abf, value, vbf));
    }
    let first_outpoint = OutPoint::new(pset.inputs()[0].previous_txid, pset.inputs()[0].previous_output_index);
    let aid = |a: u8| aid_with(a, first_outpoint);
    let mut marked = Vec::new();
    let mut out_asset_value = Vec::new();
    let mut push_out = |pset: &mut Pset, o: Output, m: Option<(usize, zkp::SecretKey)>, av: (AssetId, u64)| {
        pset.add_output(o);
        marked.push(m);
        out_asset_value.push(av);
    };
    if p.fee_first {
        push_out(&mut pset, Output::new_explicit(Script::new(), fee, asset_a(), None), None, (asset_a(), fee));
    }
    for (j, o) in outs.iter().enumerate() {
        match o.party {
            Some(party) => {
                let rsk = gen::sk(8300 + j as u64);
                let mut out = Output::new_explicit(
                    template_script((j % 5) as u8, j as u8),
                    o.value,
                    aid(o.asset),
                    Some(elements::bitcoin::PublicKey::new(zkp::PublicKey::from_secret_key(s, &rsk))),
                );
                out.blinder_index = Some(o.blinder_index);
                push_out(&mut pset, out, Some((party, rsk)), (aid(o.asset), o.value));
            }
            None => push_out(&mut pset, Output::new_explicit(template_script(2, 100 + j as u8), o.value, aid(o.asset), None), None, (aid(o.asset), o.value)),
        }
    }
    if !p.fee_first {
        push_out(&mut pset, Output::new_explicit(Script::new(), fee, asset_a(), None), None, (asset_a(), fee));
    }
    let _ = btc_pk;
    Built { pset, utxos, secrets, marked, out_asset_value }
}

/// run one order (last element = last blinder); checks every intermediate state and the terminal one
pub fn run_order(p: &Proto, order: &[usize], seed: u64) -> Result<(), (String, String)> {
    let s = secp();
    let b = build(p);
    let mut bytes = serialize(&b.pset);
    let k = order.len();
    let mut blinded_snapshot: HashMap<usize, Vec<u8>> = HashMap::new();
    let mut expected_scalars = 0usize;
    for (step, &party) in order.iter().enumerate() {
        // the hop is part of the transition
        let mut pset: Pset = deserialize(&bytes).map_err(|e| ("hop-deserialize-failed".to_string(), format!("step {}: {:?}", step, e)))?;
        let own: HashMap<usize, TxOutSecrets> = p.inputs.iter().enumerate().filter(|(_, x)| x.2 == party).map(|(i, _)| (i, b.secrets[i])).collect();
        let mut rng = DetRng::new(seed, 0xC09 + party as u64, p.rng_stream);
        let last = step + 1 == k;
        let res = guard(|| if last { pset.blind_last(&mut rng, s, &own).map(|_| ()) } else { pset.blind_non_last(&mut rng, s, &own).map(|_| ()) });
        match res {
            Err(pn) => return Err((format!("panic@{}", crate::engine::panic_site(&pn)), pn)),
            Ok(Err(e)) => return Err((if last { "blind_last-error".into() } else { "blind_non_last-error".into() }, format!("step {} party {}: {:?}", step, party, e))),
            Ok(Ok(())) => {}
        }
        if !last {
            expected_scalars += 1;
            if pset.global.scalars.len() != expected_scalars {
                return Err(("intermediate-scalar-count".into(), format!("after {} non-last blinders there are {} scalars", expected_scalars, pset.global.scalars.len())));
            }
        }
        // already blinded outputs must not be touched by later steps; this party's outputs are now blinded
        for (j, m) in b.marked.iter().enumerate() {
            let ob = serialize(&pset.outputs()[j]);
            if let Some(prev) = blinded_snapshot.get(&j) {
                if prev != &ob {
                    return Err(("earlier-blinded-output-changed".into(), format!("output {} changed at step {}", j, step)));
                }
            }
            if let Some((owner, _)) = m {
                if *owner == party {
                    if !pset.outputs()[j].is_fully_blinded() {
                        return Err(("own-output-not-blinded".into(), format!("output {} of party {} is not fully blinded after its step", j, party)));
                    }
                    blinded_snapshot.insert(j, ob);
                }
            }
        }
        bytes = serialize(&pset);
    }
    // terminal state
    let pset: Pset = deserialize(&bytes).map_err(|e| ("final-deserialize-failed".to_string(), format!("{:?}", e)))?;
    if !pset.global.scalars.is_empty() {
        return Err(("scalars-not-empty".into(), format!("{} scalars left", pset.global.scalars.len())));
    }
    let tx = pset.extract_tx().map_err(|e| ("extract-failed".to_string(), format!("{:?}", e)))?;
    match guard(|| tx.verify_tx_amt_proofs(s, &b.utxos)) {
        Err(pn) => return Err(("verify-panic".into(), pn)),
        Ok(Err(e)) => return Err(("final-transaction-does-not-verify".into(), format!("{:?}", e))),
        Ok(Ok(())) => {}
    }
    for (j, m) in b.marked.iter().enumerate() {
        let o = &pset.outputs()[j];
        match m {
            None => {
                if o.amount_comm.is_some() || o.asset_comm.is_some() {
                    return Err(("unmarked-output-blinded".into(), format!("output {}", j)));
                }
            }
            Some((_, rsk)) => {
                if !o.is_fully_blinded() {
                    return Err(("marked-output-not-fully-blinded".into(), format!("output {}", j)));
                }
                let sec = tx.output[j].unblind(s, *rsk).map_err(|e| ("unblind-error".to_string(), format!("output {}: {:?}", j, e)))?;
                if (sec.asset, sec.value) != b.out_asset_value[j] {
                    return Err(("unblind-mismatch".into(), format!("output {}: ({}, {})", j, sec.asset, sec.value)));
                }
                match guard(|| crate::oracle::rewind::open(s, &tx.output[j], rsk)) {
                    Ok(Ok(op)) => {
                        use elements::hashes::Hash as _;
                        if op.asset != b.out_asset_value[j].0.to_byte_array() || op.value != b.out_asset_value[j].1 || &op.abf[..] != sec.asset_bf.into_inner().as_ref() {
                            return Err(("independent-wallet-opens-to-other-secrets".into(), format!("output {}", j)));
                        }
                    }
                    other => return Err(("independent-wallet-cannot-open".into(), format!("output {}: {:?}", j, other.map(|x| x.map(|_| ()))))),
                }
                let (asset, value) = b.out_asset_value[j];
                let gen_ = o.asset_comm.unwrap();
                let comm = o.amount_comm.unwrap();
                match (&o.blind_value_proof, &o.blind_asset_proof) {
                    (Some(vp), Some(ap)) => {
                        if !vp.blind_value_proof_verify(s, value, gen_, comm) {
                            return Err(("stored-value-proof-invalid".into(), format!("output {}", j)));
                        }
                        if !ap.blind_asset_proof_verify(s, asset, gen_) {
                            return Err(("stored-asset-proof-invalid".into(), format!("output {}", j)));
                        }
                    }
                    _ => return Err(("stored-proofs-missing".into(), format!("output {}", j))),
                }
            }
        }
    }
    Ok(())
}

/// set partitions of 0..n into exactly k non-empty blocks, as owner vectors (restricted growth strings)
fn partitions(n: usize, k: usize) -> Vec<Vec<usize>> {
    fn rec(i: usize, n: usize, k: usize, cur: &mut Vec<usize>, maxb: usize, out: &mut Vec<Vec<usize>>) {
        if i == n {
            if maxb == k {
                out.push(cur.clone());
            }
            return;
        }
        for b in 0..=maxb.min(k - 1) {
            cur.push(b);
            rec(i + 1, n, k, cur, maxb.max(b + 1), out);
            cur.pop();
        }
    }
    let mut out = Vec::new();
    rec(0, n, k, &mut Vec::new(), 0, &mut out);
    out
}

pub fn protocols(thorough: bool, streams: u64) -> Vec<Proto> {
    let mut out = Vec::new();
    for n in 1..=3usize {
        for amask in 0..(1u32 << (n - 1)) {
            for cmask in 0..(1u32 << n) {
                for k in 1..=n.min(3) {
                    for owners in partitions(n, k) {
                        let radix = if thorough || k == 1 || (k == 2 && n == 2) { 3usize } else { 2 };
                        crate::engine::product(&vec![radix; k], |opp| {
                            for extra in [false, true] {
                                if !thorough && n == 3 && extra && cmask % 3 != 0 {
                                    continue;
                                }
                                for st in 0..streams {
                                    let base = Proto {
                                        inputs: (0..n).map(|i| (if i == 0 { 0 } else { ((amask >> (i - 1)) & 1) as u8 }, (cmask >> i) & 1 == 1, owners[i])).collect(),
                                        outs_per_party: opp.iter().map(|x| x + 1).collect(),
                                        extra_explicit: extra,
                                        fee_first: (cmask + amask) % 2 == 0,
                                        rng_stream: st,
                                        issuance: 0,
                                        magnitude: 0,
                                        nonwit_mask: 0,
                                    };
                                    let idx = out.len();
                                    out.push(base.clone());
                                    // issuance pseudo-inputs, larger magnitudes, inputs that also carry the full previous transaction:
                                    // quick = one covering variant per scenario; thorough = every issuance mode and every magnitude
                                    let nw = |j: usize| ((idx + j) % (1usize << n)) as u8;
                                    if thorough {
                                        for iss in 1..=3u8 {
                                            out.push(Proto { issuance: iss, magnitude: ((idx + iss as usize) % 3) as u8, nonwit_mask: nw(iss as usize), ..base.clone() });
                                        }
                                        for mag in 1..=2u8 {
                                            out.push(Proto { issuance: 0, magnitude: mag, nonwit_mask: nw(3 + mag as usize), ..base.clone() });
                                        }
                                    } else if st == 0 {
                                        out.push(Proto { issuance: (idx % 4) as u8, magnitude: ((idx / 4) % 3) as u8, nonwit_mask: nw(1).max(1), ..base.clone() });
                                    }
                                }
                            }
                        });
                    }
                }
            }
        }
    }
    out
}

pub fn run(r: &Report) {
    let streams = r.tier.pick(1u64, 2);
    r.set_rule(
        "protocol scenarios: 1..3 inputs x asset assignment {A,B} (first input A) x explicit/confidential spent outputs x every set partition of \
         the inputs among 1..3 parties x 1..3 blinded outputs per party (asset and blinder index from the party's own inputs) x optional extra \
         explicit output x fee first/last x rng stream menu x {no issuance, explicit new issuance on input 0 whose asset leaves through a blinded \
         output of that input's owner, with explicit / blinded reissuance-token output} x value magnitude {hundreds, 2^32, 2^52} x inputs that \
         also carry the full previous transaction (quick: one covering variant per scenario; thorough: every issuance mode and magnitude); for each scenario EVERY permutation of the parties (last element runs blind_last, \
         the others blind_non_last in that order), with a serialize/deserialize hop in every transition; invariants in every intermediate \
         state (scalar count, earlier outputs untouched, own outputs fully blinded) and in the terminal state (scalars empty, extracted tx \
         verifies against the UTXOs, every marked output unblinds to the original asset/value, stored explicit-value/asset proofs verify). \
         non-trivial = distinct (scenario, order) runs that completed",
    );
    let ps = protocols(r.tier.thorough(), streams);
    r.set_extra("scenarios", json!(ps.len()));
    let runs: Vec<(usize, Vec<usize>)> = ps.iter().enumerate().flat_map(|(i, p)| permutations(p.outs_per_party.len()).into_iter().map(move |o| (i, o))).collect();
    r.set_extra("protocol_runs", json!(runs.len()));
    runs.par_iter().for_each(|(i, order)| {
        let p = &ps[*i];
        r.eval(1);
        r.state(order.len() as u64 + 1);
        r.trans(order.len() as u64);
        match run_order(p, order, r.seed) {
            Ok(()) => {
                r.trace(1);
                r.nontrivial(fnv(format!("{:?}{:?}", p, order).as_bytes()));
                r.outcome(&format!("ok/{}parties", order.len()));
                if r.sample_room() && order.len() == 3 {
                    r.sample(json!({"scenario": p, "order": order}));
                }
            }
            Err((class, detail)) => {
                r.outcome(&class);
                r.violation(format!("{}/{}parties", class, order.len()), json!({"scenario": p, "order": order}), detail);
            }
        }
    });
    r.not_exhaustive();
    r.assume("RNG output is a sampled dimension (fixed menu of deterministic streams per party); everything else is enumerated completely within the stated bounds");
    r.assume("every party owns at least one input and at least one blinded output (the property's quantifier); issuance amounts stay explicit (blinding issuances is not part of the PSET blinding API), but issuance pseudo-inputs are part of the surjection domain");
    let _ = hex;
}

pub fn replay(case: &Value) -> String {
    let p: Proto = match serde_json::from_value(case["scenario"].clone()) {
        Ok(p) => p,
        Err(e) => return format!("bad case: {}", e),
    };
    let order: Vec<usize> = serde_json::from_value(case["order"].clone()).unwrap_or_default();
    match run_order(&p, &order, 0) {
        Ok(()) => "HOLDS".into(),
        Err((c, d)) => format!("VIOLATES {} ({})", c, d),
    }
}
