//! C04 — blinding yields a transaction that verifies and that receivers can unblind.
//!
//! Scenario product (complete within the stated bounds): number of inputs, explicit/confidential
//! spent outputs, one or two assets, optional explicit issuance / reissuance on one input, 1..4
//! non-fee outputs, every non-empty subset of them marked for blinding, fee position, value magnitude
//! class. RNG streams come from a fixed menu (sampled dimension, stated in evidence).

use crate::engine::{guard, DetRng, Report};
use crate::gen::{self, pat32, secp};
use elements::confidential::{Asset, AssetBlindingFactor, Nonce, Value as CValue, ValueBlindingFactor};
use elements::secp256k1_zkp as zkp;
use elements::{
    AssetId, AssetIssuance, LockTime, OutPoint, Script, Sequence, Transaction, TxIn, TxInWitness, TxOut, TxOutSecrets,
    TxOutWitness, Txid,
};
use rayon::prelude::*;
use serde::{Deserialize, Serialize};
use serde_json::{json, Value};

#[derive(Clone, Debug, Serialize, Deserialize, PartialEq, Eq, Hash)]
pub struct IssSpec {
    pub reissuance: bool,
    pub amount: u64,
    /// 0 = null inflation keys
    pub tokens: u64,
}

#[derive(Clone, Debug, Serialize, Deserialize, PartialEq, Eq, Hash)]
pub struct InSpec {
    /// 0 = asset A, 1 = asset B
    pub asset: u8,
    pub conf: bool,
    pub issuance: Option<IssSpec>,
    /// spent output with a blinded asset but an explicit amount (non-zero asset blinding factor, zero value
    /// blinding factor); only meaningful with conf = false
    #[serde(default)]
    pub asset_only: bool,
}

#[derive(Clone, Copy, Debug, Serialize, Deserialize, PartialEq, Eq, Hash)]
pub enum OutKind {
    /// marked for blinding; script template index 0..5
    Marked(u8),
    /// explicit, not blinded, spendable script
    Plain,
    Fee,
}

#[derive(Clone, Debug, Serialize, Deserialize, PartialEq, Eq, Hash)]
pub struct OutSpec {
    /// 0 = A, 1 = B, 2 = issued asset, 3 = reissuance token
    pub asset: u8,
    pub value: u64,
    pub kind: OutKind,
}

#[derive(Clone, Debug, Serialize, Deserialize, PartialEq, Eq, Hash)]
pub struct Scenario {
    pub inputs: Vec<InSpec>,
    pub outputs: Vec<OutSpec>,
    pub rng_stream: u64,
}

pub struct Built {
    pub tx: Transaction,
    pub spent: Vec<TxOut>,
    pub secrets: Vec<TxOutSecrets>,
    /// receiver blinding secret key per output (marked outputs only)
    pub receiver: Vec<Option<zkp::SecretKey>>,
    /// asset id per output
    pub out_assets: Vec<AssetId>,
}

pub fn asset_a() -> AssetId {
    AssetId::from_byte_array(pat32(0))
}
pub fn asset_b() -> AssetId {
    AssetId::from_byte_array(pat32(1))
}

pub fn template_script(t: u8, salt: u8) -> Script {
    let h = crate::oracle::sha256::sha256(&[b'S', t, salt]);
    let mut v = Vec::new();
    match t % 5 {
        0 => {
            v.extend_from_slice(&[0x76, 0xa9, 0x14]);
            v.extend_from_slice(&h[..20]);
            v.extend_from_slice(&[0x88, 0xac]);
        }
        1 => {
            v.extend_from_slice(&[0xa9, 0x14]);
            v.extend_from_slice(&h[..20]);
            v.push(0x87);
        }
        2 => {
            v.extend_from_slice(&[0x00, 0x14]);
            v.extend_from_slice(&h[..20]);
        }
        3 => {
            v.extend_from_slice(&[0x00, 0x20]);
            v.extend_from_slice(&h);
        }
        _ => {
            v.extend_from_slice(&[0x51, 0x20]);
            v.extend_from_slice(&h);
        }
    }
    Script::from(v)
}

/// Build the explicit transaction, the spent outputs and their secrets (issuance pseudo-inputs in
/// the documented order: [in_1, in_2, in_2_issue, in_2_reissue, ...]).
pub fn build(sc: &Scenario) -> Built {
    let s = secp();
    // inputs first (issuance ids depend on the outpoint)
    let mut ins: Vec<TxIn> = Vec::new();
    for (i, spec) in sc.inputs.iter().enumerate() {
        let issuance = match &spec.issuance {
            None => AssetIssuance::default(),
            Some(is) => AssetIssuance {
                asset_blinding_nonce: if is.reissuance { gen::tweak(900 + i as u64) } else { zkp::ZERO_TWEAK },
                asset_entropy: pat32(5),
                amount: if is.amount == 0 { CValue::Null } else { CValue::Explicit(is.amount) },
                inflation_keys: if is.tokens == 0 { CValue::Null } else { CValue::Explicit(is.tokens) },
            },
        };
        ins.push(TxIn {
            previous_output: OutPoint::new(Txid::from_byte_array(pat32(4 + i)), i as u32),
            is_pegin: false,
            script_sig: Script::new(),
            sequence: Sequence::MAX,
            asset_issuance: issuance,
            witness: TxInWitness::default(),
        });
    }
    let (issued, token) = sc
        .inputs
        .iter()
        .position(|i| i.issuance.is_some())
        .map(|k| {
            // the ids the outputs pay to come from the reference derivation (C11's), not from the crate's issuance_ids
            let (a, t) = crate::props::c11::ref_ids(&crate::oracle::model::from_txin(&ins[k]));
            (AssetId::from_byte_array(a), AssetId::from_byte_array(t))
        })
        .unwrap_or((asset_a(), asset_a()));
    let aid = |a: u8| match a {
        0 => asset_a(),
        1 => asset_b(),
        2 => issued,
        _ => token,
    };
    // outputs
    let mut outs = Vec::new();
    let mut receiver = Vec::new();
    let mut out_assets = Vec::new();
    for (j, o) in sc.outputs.iter().enumerate() {
        let asset = aid(o.asset);
        out_assets.push(asset);
        match o.kind {
            OutKind::Fee => {
                outs.push(TxOut::new_fee(o.value, asset));
                receiver.push(None);
            }
            OutKind::Plain => {
                outs.push(TxOut {
                    asset: Asset::Explicit(asset),
                    value: CValue::Explicit(o.value),
                    nonce: Nonce::Null,
                    script_pubkey: template_script(2, 100 + j as u8),
                    witness: TxOutWitness::default(),
                });
                receiver.push(None);
            }
            OutKind::Marked(t) => {
                let rsk = gen::sk(1000 + j as u64);
                outs.push(TxOut {
                    asset: Asset::Explicit(asset),
                    value: CValue::Explicit(o.value),
                    nonce: Nonce::Confidential(zkp::PublicKey::from_secret_key(s, &rsk)),
                    script_pubkey: template_script(t, j as u8),
                    witness: TxOutWitness::default(),
                });
                receiver.push(Some(rsk));
            }
        }
    }
    // input values: per asset, total needed = sum(outputs) - issuance; first input of the asset takes
    // the bulk, the others 1 each
    let mut need = [0u128; 2];
    for o in &sc.outputs {
        if o.asset < 2 {
            need[o.asset as usize] += o.value as u128;
        }
    }
    let mut spent = Vec::new();
    let mut secrets = Vec::new();
    for (i, spec) in sc.inputs.iter().enumerate() {
        let a = spec.asset as usize;
        let same: Vec<usize> = sc.inputs.iter().enumerate().filter(|(_, x)| x.asset == spec.asset).map(|(k, _)| k).collect();
        let value: u64 = if same[0] == i { (need[a] - (same.len() as u128 - 1)) as u64 } else { 1 };
        let asset = aid(spec.asset);
        let (abf, vbf) = if spec.conf {
            (
                AssetBlindingFactor::from_slice(gen::tweak(1100 + i as u64).as_ref()).unwrap(),
                ValueBlindingFactor::from_slice(gen::tweak(1200 + i as u64).as_ref()).unwrap(),
            )
        } else if spec.asset_only {
            (AssetBlindingFactor::from_slice(gen::tweak(1100 + i as u64).as_ref()).unwrap(), ValueBlindingFactor::zero())
        } else {
            (AssetBlindingFactor::zero(), ValueBlindingFactor::zero())
        };
        let utxo = if spec.asset_only && !spec.conf {
            TxOut {
                asset: Asset::new_confidential(s, asset, abf),
                value: CValue::Explicit(value),
                nonce: Nonce::Null,
                script_pubkey: template_script(2, 200 + i as u8),
                witness: TxOutWitness::default(),
            }
        } else if spec.conf {
            TxOut {
                asset: Asset::new_confidential(s, asset, abf),
                value: CValue::new_confidential_from_assetid(s, value, asset, vbf, abf),
                nonce: Nonce::Null,
                script_pubkey: template_script(2, 200 + i as u8),
                witness: TxOutWitness::default(),
            }
        } else {
            TxOut {
                asset: Asset::Explicit(asset),
                value: CValue::Explicit(value),
                nonce: Nonce::Null,
                script_pubkey: template_script(2, 200 + i as u8),
                witness: TxOutWitness::default(),
            }
        };
        spent.push(utxo);
        secrets.push(TxOutSecrets::new(asset, abf, value, vbf));
        if let Some(is) = &spec.issuance {
            if is.amount != 0 {
                secrets.push(TxOutSecrets::new(issued, AssetBlindingFactor::zero(), is.amount, ValueBlindingFactor::zero()));
            }
            if is.tokens != 0 {
                secrets.push(TxOutSecrets::new(token, AssetBlindingFactor::zero(), is.tokens, ValueBlindingFactor::zero()));
            }
        }
    }
    let tx = Transaction { version: 2, lock_time: LockTime::ZERO, input: ins, output: outs };
    Built { tx, spent, secrets, receiver, out_assets }
}

/// The oracle for one scenario. Returns Ok(blinded tx) or Err((class, detail)).
pub fn check(sc: &Scenario, seed: u64) -> Result<Transaction, (String, String)> {
    let s = secp();
    let b = build(sc);
    let mut tx = b.tx.clone();
    let mut rng = DetRng::new(seed, 0xC04, sc.rng_stream);
    let blinds = match guard(|| tx.blind(&mut rng, s, &b.secrets, false)) {
        Err(p) => return Err(("blind-panic".into(), p)),
        Ok(Err(e)) => return Err(("blind-error".into(), format!("{:?}", e))),
        Ok(Ok(m)) => m,
    };
    match guard(|| tx.verify_tx_amt_proofs(s, &b.spent)) {
        Err(p) => return Err(("verify-panic".into(), p)),
        Ok(Err(e)) => return Err(("blinded-tx-does-not-verify".into(), format!("{:?}", e))),
        Ok(Ok(())) => {}
    }
    let n_marked = b.receiver.iter().filter(|r| r.is_some()).count();
    if blinds.len() != n_marked {
        return Err(("blinds-map-size".into(), format!("{} entries for {} marked outputs", blinds.len(), n_marked)));
    }
    for (j, o) in sc.outputs.iter().enumerate() {
        let out = &tx.output[j];
        match b.receiver[j] {
            None => {
                if out != &b.tx.output[j] {
                    return Err(("unmarked-output-changed".into(), format!("output {}", j)));
                }
            }
            Some(rsk) => {
                let loc = elements::CtLocation { input_index: j, ty: elements::CtLocationType::Input };
                let (abf, vbf, esk) = match blinds.get(&loc) {
                    Some(x) => *x,
                    None => return Err(("blinds-map-missing-output".into(), format!("output {}", j))),
                };
                if !(out.asset.is_confidential() && out.value.is_confidential()) {
                    return Err(("marked-output-not-blinded".into(), format!("output {}", j)));
                }
                if out.script_pubkey != b.tx.output[j].script_pubkey {
                    return Err(("script-changed".into(), format!("output {}", j)));
                }
                let sec = match guard(|| out.unblind(s, rsk)) {
                    Err(p) => return Err(("unblind-panic".into(), p)),
                    Ok(Err(e)) => return Err(("unblind-error".into(), format!("output {}: {:?}", j, e))),
                    Ok(Ok(x)) => x,
                };
                let exp = TxOutSecrets::new(b.out_assets[j], abf, o.value, vbf);
                if sec != exp {
                    return Err(("unblind-mismatch".into(), format!("output {}: got {:?} expected {:?}", j, sec, exp)));
                }
                // the same opening by an independent wallet (own ECDH + SHA256d nonce, raw rewind, Elements message layout)
                match guard(|| crate::oracle::rewind::open(s, out, &rsk)) {
                    Err(p) => return Err(("independent-open-panic".into(), p)),
                    Ok(Err(e)) => return Err(("independent-wallet-cannot-open".into(), format!("output {}: {}", j, e))),
                    Ok(Ok(op)) => {
                        use elements::hashes::Hash as _;
                        if op.asset != b.out_assets[j].to_byte_array() || op.value != o.value || &op.abf[..] != abf.into_inner().as_ref() || &op.vbf[..] != vbf.into_inner().as_ref() {
                            return Err(("independent-wallet-opens-to-other-secrets".into(), format!("output {}: asset {} value {}", j, crate::engine::hex(&op.asset), op.value)));
                        }
                    }
                }
                if Asset::new_confidential(s, b.out_assets[j], abf) != out.asset {
                    return Err(("asset-commitment-not-reproduced".into(), format!("output {}", j)));
                }
                if CValue::new_confidential_from_assetid(s, o.value, b.out_assets[j], vbf, abf) != out.value {
                    return Err(("value-commitment-not-reproduced".into(), format!("output {}", j)));
                }
                if out.nonce != Nonce::Confidential(zkp::PublicKey::from_secret_key(s, &esk)) {
                    return Err(("nonce-not-ephemeral-pubkey".into(), format!("output {}", j)));
                }
            }
        }
    }
    Ok(tx)
}

/// Value magnitude classes admitted by the rangeproof parameters (<= 2^63-1).
pub const MAGNITUDES: [u64; 9] =
    [1, 2, (1 << 32) - 1, (1 << 32) + 1, (1 << 52) - 1, 1 << 52, (1 << 52) + 1, 1 << 62, (1 << 63) - 1];

/// Enumerate the scenario product.
pub fn scenarios(thorough: bool, rng_streams: u64) -> Vec<Scenario> {
    let mut out = Vec::new();
    let max_in = 3usize;
    let max_out = if thorough { 4usize } else { 3 };
    for n_in in 1..=max_in {
        // asset assignment: first input is A (symmetry), others in {A,B}
        for amask in 0..(1u32 << (n_in - 1)) {
            let assets: Vec<u8> = (0..n_in).map(|i| if i == 0 { 0 } else { ((amask >> (i - 1)) & 1) as u8 }).collect();
            let two_assets = assets.iter().any(|&a| a == 1);
            for cmask in 0..(1u32 << n_in) {
                // issuance variants: none, new issuance (amount+tokens) on input 0, new issuance amount only on last,
                // reissuance on input 0
                for iss in 0..5u8 {
                    if iss != 0 && (n_in == 3 && !thorough) {
                        continue;
                    }
                    if iss != 0 && cmask != 0 && cmask != (1 << n_in) - 1 && !thorough {
                        continue;
                    }
                    let inputs: Vec<InSpec> = (0..n_in)
                        .map(|i| InSpec {
                            asset: assets[i],
                            conf: (cmask >> i) & 1 == 1,
                            asset_only: false,
                            issuance: match iss {
                                1 if i == 0 => Some(IssSpec { reissuance: false, amount: 700, tokens: 3 }),
                                2 if i == n_in - 1 => Some(IssSpec { reissuance: false, amount: 55, tokens: 0 }),
                                3 if i == 0 => Some(IssSpec { reissuance: true, amount: 41, tokens: 0 }),
                                4 if i == 0 => Some(IssSpec { reissuance: false, amount: 0, tokens: 9 }),
                                _ => None,
                            },
                        })
                        .collect();
                    // extra outputs forced by the issuance (asset 2 / token 3)
                    let forced: Vec<(u8, u64)> = match iss {
                        1 => vec![(2, 700), (3, 3)],
                        2 => vec![(2, 55)],
                        3 => vec![(2, 41)],
                        4 => vec![(3, 9)],
                        _ => vec![],
                    };
                    for n_out in 1..=max_out {
                        if n_out + forced.len() > max_out + 1 {
                            continue;
                        }
                        // asset assignment of the free outputs: each in {A,B}; B must appear iff two_assets
                        let radix = if two_assets { 2usize } else { 1 };
                        crate::engine::product(&vec![radix; n_out], |oa| {
                            if two_assets && !oa.iter().any(|&a| a == 1) {
                                return;
                            }
                            let mut base: Vec<(u8, u64)> = oa.iter().enumerate().map(|(j, &a)| (a as u8, 10 + j as u64)).collect();
                            base.extend(forced.iter().cloned());
                            let n_nonfee = base.len();
                            // every non-empty subset of non-fee outputs marked
                            for marks in 1..(1u32 << n_nonfee) {
                                // fee position: first, middle, last (dedup for tiny)
                                let mut fps = vec![0usize, n_nonfee / 2, n_nonfee];
                                fps.dedup();
                                for (fi, &fp) in fps.iter().enumerate() {
                                    if !thorough && n_nonfee >= 3 && fi != (marks as usize % fps.len()) {
                                        continue; // quick: one fee position per marking (cycled)
                                    }
                                    let mut outputs: Vec<OutSpec> = base
                                        .iter()
                                        .enumerate()
                                        .map(|(j, &(a, v))| OutSpec {
                                            asset: a,
                                            value: v,
                                            kind: if (marks >> j) & 1 == 1 { OutKind::Marked(((j + n_in) % 5) as u8) } else { OutKind::Plain },
                                        })
                                        .collect();
                                    outputs.insert(fp, OutSpec { asset: 0, value: 3, kind: OutKind::Fee });
                                    for st in 0..rng_streams {
                                        out.push(Scenario { inputs: inputs.clone(), outputs, rng_stream: st });
                                        outputs = out.last().unwrap().outputs.clone();
                                    }
                                }
                            }
                        });
                    }
                }
            }
        }
    }
    out
}

/// Magnitude scenarios: 1..2 inputs, 2 outputs, each magnitude on a marked / plain output.
pub fn magnitude_scenarios() -> Vec<Scenario> {
    let mut out = Vec::new();
    for &m in MAGNITUDES.iter() {
        for n_in in 1..=2usize {
            for conf in [false, true] {
                for which in 0..3u8 {
                    // which: 0 = big value on marked-first, 1 = on marked-last, 2 = on plain
                    let kinds = match which {
                        0 => [OutKind::Marked(2), OutKind::Marked(3)],
                        1 => [OutKind::Marked(4), OutKind::Marked(0)],
                        _ => [OutKind::Plain, OutKind::Marked(1)],
                    };
                    let vals = match which {
                        1 => [1u64, m],
                        _ => [m, 1],
                    };
                    out.push(Scenario {
                        inputs: (0..n_in).map(|_| InSpec { asset: 0, conf, issuance: None, asset_only: false }).collect(),
                        outputs: vec![
                            OutSpec { asset: 0, value: vals[0], kind: kinds[0] },
                            OutSpec { asset: 0, value: 1, kind: OutKind::Fee },
                            OutSpec { asset: 0, value: vals[1], kind: kinds[1] },
                        ],
                        rng_stream: 0,
                    });
                }
            }
        }
    }
    out
}

/// Scenarios with spent outputs whose asset is blinded but whose amount is explicit, alone and next to explicit /
/// confidential ones, one and two assets.
pub fn asset_only_scenarios() -> Vec<Scenario> {
    let mut out = Vec::new();
    for n_in in 1..=3usize {
        for amask in 0..(1u32 << (n_in - 1)) {
            // each input: 0 explicit, 1 confidential, 2 asset-only; at least one asset-only
            crate::engine::product(&vec![3usize; n_in], |kinds| {
                if !kinds.iter().any(|&k| k == 2) {
                    return;
                }
                let assets: Vec<u8> = (0..n_in).map(|i| if i == 0 { 0 } else { ((amask >> (i - 1)) & 1) as u8 }).collect();
                let inputs: Vec<InSpec> = (0..n_in).map(|i| InSpec { asset: assets[i], conf: kinds[i] == 1, issuance: None, asset_only: kinds[i] == 2 }).collect();
                let two = assets.iter().any(|&a| a == 1);
                for marks in [1u32, 2, 3] {
                    let mut outputs = vec![
                        OutSpec { asset: 0, value: 21, kind: if marks & 1 != 0 { OutKind::Marked(2) } else { OutKind::Plain } },
                        OutSpec { asset: if two { 1 } else { 0 }, value: 34, kind: if marks & 2 != 0 { OutKind::Marked(4) } else { OutKind::Plain } },
                    ];
                    outputs.push(OutSpec { asset: 0, value: 3, kind: OutKind::Fee });
                    out.push(Scenario { inputs: inputs.clone(), outputs, rng_stream: 0 });
                }
            });
        }
    }
    out
}

/// Direct constructor paths: with_txout_secrets + with_secrets_last with caller-chosen secrets.
fn constructor_path(seed: u64, k: u64) -> Result<(), (String, String)> {
    let s = secp();
    let sc = Scenario {
        inputs: vec![InSpec { asset: 0, conf: k % 2 == 0, issuance: None, asset_only: false }, InSpec { asset: 1, conf: k % 3 == 0, issuance: None, asset_only: k % 3 == 1 }],
        outputs: vec![
            OutSpec { asset: 0, value: 40 + k, kind: OutKind::Marked(2) },
            OutSpec { asset: 1, value: 9, kind: OutKind::Marked(3) },
            OutSpec { asset: 0, value: 2, kind: OutKind::Fee },
        ],
        rng_stream: k,
    };
    let b = build(&sc);
    let mut rng = DetRng::new(seed, 0xC04C, k);
    let abf0 = AssetBlindingFactor::from_slice(gen::tweak(1300 + k).as_ref()).unwrap();
    let vbf0 = ValueBlindingFactor::from_slice(gen::tweak(1400 + k).as_ref()).unwrap();
    let esk0 = gen::sk(1500 + k);
    let esk1 = gen::sk(1600 + k);
    let abf1 = AssetBlindingFactor::from_slice(gen::tweak(1700 + k).as_ref()).unwrap();
    let rpk0 = zkp::PublicKey::from_secret_key(s, &b.receiver[0].unwrap());
    let rpk1 = zkp::PublicKey::from_secret_key(s, &b.receiver[1].unwrap());
    let sec0 = TxOutSecrets::new(b.out_assets[0], abf0, 40 + k, vbf0);
    let r = guard(|| -> Result<Transaction, String> {
        let o0 = TxOut::with_txout_secrets(&mut rng, s, b.tx.output[0].script_pubkey.clone(), rpk0, esk0, sec0, &b.secrets)
            .map_err(|e| format!("with_txout_secrets: {:?}", e))?;
        let fee_sec = TxOutSecrets::new(asset_a(), AssetBlindingFactor::zero(), 2, ValueBlindingFactor::zero());
        let (o1, vbf1) = TxOut::with_secrets_last(
            &mut rng, s, 9, b.tx.output[1].script_pubkey.clone(), rpk1, b.out_assets[1], esk1, abf1, &b.secrets, &[&sec0, &fee_sec],
        )
        .map_err(|e| format!("with_secrets_last: {:?}", e))?;
        let mut tx = b.tx.clone();
        tx.output[0] = o0;
        tx.output[1] = o1;
        tx.verify_tx_amt_proofs(s, &b.spent).map_err(|e| format!("verify: {:?}", e))?;
        let u0 = tx.output[0].unblind(s, b.receiver[0].unwrap()).map_err(|e| format!("unblind0: {:?}", e))?;
        if u0 != sec0 {
            return Err("unblind0 mismatch".into());
        }
        let u1 = tx.output[1].unblind(s, b.receiver[1].unwrap()).map_err(|e| format!("unblind1: {:?}", e))?;
        if u1 != TxOutSecrets::new(b.out_assets[1], abf1, 9, vbf1) {
            return Err("unblind1 mismatch".into());
        }
        Ok(tx)
    });
    match r {
        Err(p) => Err(("constructor-path-panic".into(), p)),
        Ok(Err(e)) => Err(("constructor-path".into(), e)),
        Ok(Ok(_)) => Ok(()),
    }
}

/// A few blinded transactions for other properties' generators (C01, C12, C20, C05).
pub fn blinded_samples(seed: u64, n: usize) -> Vec<Transaction> {
    let all = scenarios(false, 1);
    let step = (all.len() / n.max(1)).max(1);
    all.iter().step_by(step).take(n).filter_map(|sc| check(sc, seed).ok()).collect()
}

/// Verifying (scenario, blinded tx, spent outputs) triples for C05.
pub fn verifying_cases(seed: u64, n: usize) -> Vec<(Scenario, Transaction, Vec<TxOut>)> {
    let all = scenarios(false, 1);
    let step = (all.len() / n.max(1)).max(1);
    all.iter()
        .step_by(step)
        .take(n)
        .filter_map(|sc| check(sc, seed).ok().map(|tx| (sc.clone(), tx, build(sc).spent)))
        .collect()
}

pub fn run(r: &Report) {
    let streams = r.tier.pick(1u64, 3);
    let mut scs = scenarios(r.tier.thorough(), streams);
    let n_product = scs.len();
    scs.extend(magnitude_scenarios());
    scs.extend(asset_only_scenarios());
    r.set_rule(
        "scenario product: n_in 1..3 x asset assignment {A,B} x explicit/confidential spent outputs x {no issuance, new issuance with \
         tokens on first input, new issuance on last input, reissuance, token-only issuance} x 1..3(4) free outputs over the assets present x every non-empty \
         marked subset x fee position (first/middle/last; quick cycles one per marking for >=3 outputs) x rng stream menu; plus spent outputs with a blinded asset and an explicit amount (every mix with explicit / confidential ones for 1..3 inputs); plus 9 value \
         magnitudes up to 2^63-1 on first/last/plain outputs; plus direct constructor paths. non-trivial = distinct scenarios whose \
         blinded transaction verified and unblinded",
    );
    r.set_extra("scenarios_product", json!(n_product));
    r.set_extra("scenarios_total", json!(scs.len()));
    r.set_extra("rng_streams", json!(streams));
    scs.par_iter().for_each(|sc| {
        r.eval(1);
        r.state(1);
        let n_marked = sc.outputs.iter().filter(|o| matches!(o.kind, OutKind::Marked(_))).count() as u64;
        r.trans(1 + n_marked); // blind + one unblind per marked output
        match check(sc, r.seed) {
            Ok(tx) => {
                r.trace(1);
                r.nontrivial(crate::engine::fnv(serde_json::to_string(sc).unwrap().as_bytes()));
                r.outcome(&format!("ok/{}in/{}out/{}marked", sc.inputs.len(), sc.outputs.len(), n_marked));
                if r.sample_room() && sc.inputs.len() == 2 && n_marked == 2 {
                    r.sample(json!({"scenario": sc, "blinded_tx_size": tx.size()}));
                }
            }
            Err((class, detail)) => {
                let shape = format!(
                    "{}in{}/{}marked",
                    sc.inputs.len(),
                    if sc.inputs.iter().any(|i| i.issuance.is_some()) { "+iss" } else { "" },
                    n_marked
                );
                r.outcome(&format!("{}/{}", class, shape));
                r.violation(format!("{}/{}", class, shape), serde_json::to_value(sc).unwrap(), detail);
            }
        }
    });
    let nc = r.tier.pick(6u64, 24);
    for k in 0..nc {
        r.eval(1);
        r.state(1);
        r.trans(3);
        if let Err((class, detail)) = constructor_path(r.seed, k) {
            r.violation(class, json!({"constructor_path": k}), detail);
        }
    }
    r.not_exhaustive();
    r.assume("RNG output is a sampled dimension: a fixed menu of deterministic counter-mode streams (everything else in the scenario product is enumerated completely)");
    r.assume("marked outputs carry address-template scripts; blind_issuances=false (the property speaks of explicit issuances); values <= 2^63-1");
    r.assume("libsecp256k1-zkp proof generation/verification is trusted");
}

pub fn replay(case: &Value) -> String {
    if let Some(k) = case.get("constructor_path").and_then(|v| v.as_u64()) {
        return match constructor_path(0, k) {
            Ok(()) => "HOLDS".into(),
            Err((c, d)) => format!("VIOLATES {} {}", c, d),
        };
    }
    match serde_json::from_value::<Scenario>(case.clone()) {
        Err(e) => format!("bad case: {}", e),
        Ok(sc) => match check(&sc, 0) {
            Ok(_) => "HOLDS blind+verify+unblind ok".into(),
            Err((c, d)) => format!("VIOLATES {} {}", c, d),
        },
    }
}
