//! C01 — consensus encoding is an exact bijection on canonical values.
//!
//! value side : every value of the structural generators (and values produced by blinding):
//!              encoder-reported length == bytes written; decode(encode(v)) == v;
//!              decode_partial(encode(v) ++ junk) == (v, len); the same under environment deviations
//!              (short writes, short reads, a writer that fills up at every byte position).
//! byte side  : every string at <= d deviations from each valid encoding, and all short strings:
//!              decode(b) == Ok(v)  ==>  encode(v) == b  (and partial decode consumed exactly the
//!              re-encoded prefix).

use crate::engine::{dev, fnv, guard, hex_short, unhex, Report};
use crate::gen;
use crate::oracle::model::*;
use elements::encode::{deserialize, deserialize_partial, serialize, Decodable, Encodable};
use rayon::prelude::*;
use serde_json::{json, Value};
use std::fmt::Debug;

pub const TYPES: [&str; 16] = [
    "Transaction", "TxIn", "TxOut", "Block", "BlockHeader", "Params", "FullParams", "Asset", "Value", "Nonce",
    "TxInWitness", "TxOutWitness", "AssetIssuance", "OutPoint", "Script", "LockTime",
];

/// Environment deviations for the encoder / decoder: an `io::Write` may legally accept fewer bytes than offered
/// (short write) and an `io::Read` may legally return fewer bytes than asked for (short read); a writer that is full
/// answers `Ok(0)`. The statement "the length reported by the encoder equals the number of bytes written" and the
/// decode(encode(v)) == v round trip must hold under every such answer pattern of the environment.
struct ChunkWriter {
    buf: Vec<u8>,
    chunk: usize,
    cap: usize,
}
impl std::io::Write for ChunkWriter {
    fn write(&mut self, b: &[u8]) -> std::io::Result<usize> {
        let n = b.len().min(self.chunk).min(self.cap - self.buf.len());
        self.buf.extend_from_slice(&b[..n]);
        Ok(n)
    }
    fn flush(&mut self) -> std::io::Result<()> {
        Ok(())
    }
}
struct ChunkReader<'a> {
    data: &'a [u8],
    pos: usize,
    chunk: usize,
}
impl std::io::Read for ChunkReader<'_> {
    fn read(&mut self, out: &mut [u8]) -> std::io::Result<usize> {
        let n = out.len().min(self.chunk).min(self.data.len() - self.pos);
        out[..n].copy_from_slice(&self.data[self.pos..self.pos + n]);
        self.pos += n;
        Ok(n)
    }
}

/// returns an error text if the encoder / decoder misbehaves under short writes, short reads or a full writer
pub fn environment_deviations<T: Encodable + Decodable + PartialEq + Debug>(v: &T, b: &[u8]) -> Result<u64, String> {
    let mut n_runs = 0u64;
    for chunk in [1usize, 3, 64] {
        let mut w = ChunkWriter { buf: Vec::new(), chunk, cap: usize::MAX };
        let n = v.consensus_encode(&mut w).map_err(|e| format!("short-write/{}: encode error {:?}", chunk, e))?;
        n_runs += 1;
        if n != w.buf.len() || w.buf != b {
            return Err(format!("short-write: with a writer accepting {} byte(s) per call the encoder reported {} bytes, {} were written ({} expected)", chunk, n, w.buf.len(), b.len()));
        }
        let mut rd = ChunkReader { data: b, pos: 0, chunk };
        n_runs += 1;
        match T::consensus_decode(&mut rd) {
            Ok(v2) => {
                if &v2 != v || rd.pos != b.len() {
                    return Err(format!("short-read: with a reader returning {} byte(s) per call the decoder produced a different value or consumed {} of {}", chunk, rd.pos, b.len()));
                }
            }
            Err(e) => return Err(format!("short-read: with a reader returning {} byte(s) per call decoding failed: {:?}", chunk, e)),
        }
    }
    // a writer that fills up after `cap` bytes: the encoder must report an error, or exactly what was written
    let caps: Vec<usize> = if b.len() <= 160 { (0..b.len()).collect() } else { (0..40).chain(b.len() - 40..b.len()).chain((40..b.len() - 40).step_by(b.len() / 40 + 1)).collect() };
    for cap in caps {
        let mut w = ChunkWriter { buf: Vec::new(), chunk: usize::MAX, cap };
        n_runs += 1;
        if let Ok(n) = v.consensus_encode(&mut w) {
            if n != w.buf.len() {
                return Err(format!("full-writer: writer full after {} bytes, encoder returned Ok({}) although {} bytes were written", cap, n, w.buf.len()));
            }
        }
        if w.buf[..] != b[..w.buf.len()] {
            return Err(format!("full-writer: bytes written before the writer filled up at {} are not a prefix of the encoding", cap));
        }
    }
    Ok(n_runs)
}

/// value-side oracle for one value
fn value_side<T: Encodable + Decodable + PartialEq + Debug>(r: &Report, ty: &'static str, v: &T, expect_ref: Option<&[u8]>) -> Option<Vec<u8>> {
    r.eval(1);
    r.state(1);
    let res = guard(|| {
        let mut w = Vec::new();
        let n = v.consensus_encode(&mut w).map_err(|e| format!("encode error {:?}", e))?;
        if n != w.len() {
            return Err(format!("encoder reported {} bytes but wrote {}", n, w.len()));
        }
        let b = serialize(v);
        if b != w {
            return Err("serialize() differs from consensus_encode".to_string());
        }
        match deserialize::<T>(&b) {
            Ok(v2) => {
                if &v2 != v {
                    return Err("decode(encode(v)) != v".to_string());
                }
            }
            Err(e) => return Err(format!("decode(encode(v)) failed: {:?}", e)),
        }
        let mut j = b.clone();
        j.extend_from_slice(&[0xaa, 0x01, 0xff]);
        match deserialize_partial::<T>(&j) {
            Ok((v2, n)) => {
                if &v2 != v || n != b.len() {
                    return Err(format!("partial decode of encode(v)++junk consumed {} of {}", n, b.len()));
                }
            }
            Err(e) => return Err(format!("partial decode failed: {:?}", e)),
        }
        if b.len() <= 20_000 {
            let n = environment_deviations(v, &b)?;
            r.trans(n);
        }
        Ok(b)
    });
    match res {
        Ok(Ok(b)) => {
            if let Some(rf) = expect_ref {
                r.trace(1);
                if rf != &b[..] {
                    // not C01's claim, but the generators rely on it: machinery error, not a verdict
                    r.violation(
                        format!("value/{}/reference-encoding-differs", ty),
                        json!({"type": ty, "hex": crate::engine::hex(&b), "ref": crate::engine::hex(rf)}),
                        "library encoding differs from the reference encoder (Elements wire format)",
                    );
                }
            }
            r.nontrivial(fnv(&b) ^ fnv(ty.as_bytes()));
            Some(b)
        }
        Ok(Err(e)) => {
            r.violation(format!("value/{}/{}", ty, e.split(':').next().unwrap_or("")), json!({"type": ty, "value": format!("{:?}", v).chars().take(2000).collect::<String>()}), e);
            None
        }
        Err(p) => {
            r.violation(format!("value/{}/panic", ty), json!({"type": ty, "value": format!("{:?}", v).chars().take(2000).collect::<String>()}), p);
            None
        }
    }
}

/// byte-side oracle for one string
fn byte_side<T: Encodable + Decodable + PartialEq + Debug>(r: &Report, ty: &'static str, b: &[u8]) -> String {
    r.trans(1);
    crate::engine::crash::crumb(ty, b);
    let res = guard(|| -> Result<bool, String> {
        match deserialize_partial::<T>(b) {
            Err(_) => {
                if deserialize::<T>(b).is_ok() {
                    return Err("deserialize Ok but deserialize_partial Err".into());
                }
                Ok(false)
            }
            Ok((v, n)) => {
                if n > b.len() {
                    return Err(format!("consumed {} > len {}", n, b.len()));
                }
                let e = serialize(&v);
                if e != b[..n] {
                    return Err(format!("non-canonical accepted: re-encodes to {}", hex_short(&e)));
                }
                let full = deserialize::<T>(b);
                if (n == b.len()) != full.is_ok() {
                    return Err(format!("deserialize() is_ok={} but consumed {} of {}", full.is_ok(), n, b.len()));
                }
                if let Ok(v2) = full {
                    if v2 != v {
                        return Err("deserialize and deserialize_partial disagree".into());
                    }
                }
                Ok(n == b.len())
            }
        }
    });
    match res {
        Ok(Ok(acc)) => {
            r.acc(acc);
            if acc { "HOLDS accepted and canonical".into() } else { "HOLDS rejected (or partial)".into() }
        }
        Ok(Err(e)) => {
            let key = e.split(':').next().unwrap_or("").to_string();
            r.violation(format!("bytes/{}/{}", ty, key), json!({"type": ty, "hex": crate::engine::hex(b)}), e.clone());
            format!("VIOLATES {}", e)
        }
        Err(p) => {
            // panics are C10's subject; here they also break "decoder accepts or rejects"
            r.violation(format!("bytes/{}/panic@{}", ty, crate::engine::panic_site(&p)), json!({"type": ty, "hex": crate::engine::hex(b)}), p.clone());
            format!("VIOLATES panic {}", p)
        }
    }
}

fn dispatch_bytes(r: &Report, ty: &str, b: &[u8]) -> String {
    use elements::confidential::{Asset, Nonce, Value as CValue};
    use elements::dynafed::{FullParams, Params};
    match ty {
        "Transaction" => byte_side::<elements::Transaction>(r, "Transaction", b),
        "TxIn" => byte_side::<elements::TxIn>(r, "TxIn", b),
        "TxOut" => byte_side::<elements::TxOut>(r, "TxOut", b),
        "Block" => byte_side::<elements::Block>(r, "Block", b),
        "BlockHeader" => byte_side::<elements::BlockHeader>(r, "BlockHeader", b),
        "Params" => byte_side::<Params>(r, "Params", b),
        "FullParams" => byte_side::<FullParams>(r, "FullParams", b),
        "Asset" => byte_side::<Asset>(r, "Asset", b),
        "Value" => byte_side::<CValue>(r, "Value", b),
        "Nonce" => byte_side::<Nonce>(r, "Nonce", b),
        "TxInWitness" => byte_side::<elements::TxInWitness>(r, "TxInWitness", b),
        "TxOutWitness" => byte_side::<elements::TxOutWitness>(r, "TxOutWitness", b),
        "AssetIssuance" => byte_side::<elements::AssetIssuance>(r, "AssetIssuance", b),
        "OutPoint" => byte_side::<elements::OutPoint>(r, "OutPoint", b),
        "Script" => byte_side::<elements::Script>(r, "Script", b),
        "LockTime" => byte_side::<elements::LockTime>(r, "LockTime", b),
        _ => "unknown type".into(),
    }
}

/// explore the neighbourhood of one valid encoding
fn neighbourhood(r: &Report, ty: &'static str, e: &[u8], d2_max: usize) {
    let mut f = |b: &[u8], _k: &'static str, _p: usize| {
        dispatch_bytes(r, ty, b);
    };
    if e.len() <= 420 {
        dev::dev1(e, &mut f);
    } else if e.len() <= 70_000 {
        let w = dev::window(e.len(), 200, 64, 97);
        dev::dev1_at(e, &w, &mut f);
    } else {
        let w = dev::window(e.len(), 120, 16, 100_003);
        dev::dev1_at(e, &w, &mut f);
    }
    if e.len() <= d2_max {
        dev::dev2(e, &mut f);
    }
}

pub fn run(r: &Report) {
    let thorough = r.tier.thorough();
    let d2_max = r.tier.pick(48usize, 120);
    r.set_rule(&format!(
        "value side: complete products of the structural generators (64 witness-presence classes x positions, 6 input kinds, \
         null/explicit/confidential fields with both parity prefixes, legacy/dynafed headers with null/compact/full params, \
         varint boundaries 252/253/65535/65536{}), plus blinder outputs, each also under environment deviations (writers accepting 1/3/64 bytes \
         per call, readers returning 1/3/64 bytes per call, a writer that fills up at every byte position); byte side: every string at 1 deviation from each distinct \
         encoding (substitution menu, truncation, extension, insertion, deletion, non-minimal varint rewrite, huge length) — all \
         positions for encodings <= 420 bytes, windowed otherwise; every length / count field of EVERY transaction / block / header encoding \
         (via the reference parse tree) rewritten to each non-minimal width and to value +-1 — 2 deviations for encodings <= {} bytes, and all strings of \
         length <= {} for each of 16 decoders. non-trivial = distinct valid encodings (value side)",
        if thorough { "/4000000" } else { "" },
        d2_max,
        if thorough { 3 } else { 2 }
    ));
    // ---------------- value side
    let mut encs: Vec<(&'static str, Vec<u8>)> = Vec::new();

    let mut txs = gen::txs_witness_classes();
    txs.extend(gen::txs_shapes());
    txs.extend(gen::txs_degenerate_witness());
    txs.extend(gen::txs_input_variants());
    txs.extend(gen::txs_varint_boundaries(thorough));
    r.set_extra("transactions_generated", json!(txs.len()));
    let tx_encs: Vec<Option<Vec<u8>>> = txs
        .par_iter()
        .map(|t| {
            let lib = to_tx(t);
            let rf = t.enc_full();
            value_side(r, "Transaction", &lib, Some(&rf))
        })
        .collect();
    for e in tx_encs.into_iter().flatten() {
        encs.push(("Transaction", e));
    }
    // inputs (complete alphabet product), outputs (full product)
    let ins = gen::txins();
    r.set_extra("txins_generated", json!(ins.len()));
    for i in &ins {
        let mut rf = Vec::new();
        enc_txin(&mut rf, i);
        if let Some(e) = value_side(r, "TxIn", &to_txin(i), Some(&rf)) {
            encs.push(("TxIn", e));
        }
        if let Some(is) = &i.issuance {
            let lib = to_txin(i).asset_issuance;
            let mut rf = Vec::new();
            enc_issuance(&mut rf, is);
            if let Some(e) = value_side(r, "AssetIssuance", &lib, Some(&rf)) {
                encs.push(("AssetIssuance", e));
            }
        }
    }
    let outs = gen::txouts_full();
    r.set_extra("txouts_generated", json!(outs.len()));
    for o in &outs {
        let mut rf = Vec::new();
        enc_txout(&mut rf, o);
        if let Some(e) = value_side(r, "TxOut", &to_txout(o), Some(&rf)) {
            encs.push(("TxOut", e));
        }
    }
    for w in gen::inwits() {
        let i = RTxIn { wit: w.clone(), ..gen::txin_rep(gen::InKind::Plain, 0) };
        let mut rf = Vec::new();
        enc_inwit(&mut rf, &w);
        if let Some(e) = value_side(r, "TxInWitness", &to_txin(&i).witness, Some(&rf)) {
            encs.push(("TxInWitness", e));
        }
    }
    {
        let f = gen::fixtures();
        for (s, p) in [(vec![], vec![]), (f.sps[0].clone(), vec![]), (vec![], f.rps[0].clone()), (f.sps[1].clone(), f.rps[1].clone())] {
            let o = RTxOut { surj: s, rp: p, ..gen::txout_rep(0) };
            let mut rf = Vec::new();
            enc_outwit(&mut rf, &o);
            if let Some(e) = value_side(r, "TxOutWitness", &to_txout(&o).witness, Some(&rf)) {
                encs.push(("TxOutWitness", e));
            }
        }
    }
    for a in gen::assets() {
        let mut rf = Vec::new();
        enc_asset(&mut rf, &a);
        if let Some(e) = value_side(r, "Asset", &to_asset(&a), Some(&rf)) {
            encs.push(("Asset", e));
        }
    }
    for a in gen::values() {
        let mut rf = Vec::new();
        enc_value(&mut rf, &a);
        if let Some(e) = value_side(r, "Value", &to_value(&a), Some(&rf)) {
            encs.push(("Value", e));
        }
    }
    for a in gen::nonces() {
        let mut rf = Vec::new();
        enc_nonce(&mut rf, &a);
        if let Some(e) = value_side(r, "Nonce", &to_nonce(&a), Some(&rf)) {
            encs.push(("Nonce", e));
        }
    }
    for (k, vout) in [0u32, 1, u32::MAX, 1 << 30, 1 << 31].iter().enumerate() {
        let op = elements::OutPoint::new(elements::Txid::from_byte_array(gen::pat32(k)), *vout);
        if let Some(e) = value_side(r, "OutPoint", &op, None) {
            encs.push(("OutPoint", e));
        }
    }
    for s in gen::scripts() {
        let mut rf = Vec::new();
        bytes(&mut rf, &s);
        if let Some(e) = value_side(r, "Script", &elements::Script::from(s.clone()), Some(&rf)) {
            encs.push(("Script", e));
        }
    }
    for lt in gen::LOCKTIMES {
        if let Some(e) = value_side(r, "LockTime", &elements::LockTime::from_consensus(lt), Some(&lt.to_le_bytes())) {
            encs.push(("LockTime", e));
        }
    }
    // values obtained from the library's CONSTRUCTORS (not assembled field by field): every lock-time constructor over the
    // boundary arguments, including the textual ones; Default / null / new_fee / new values of the encodable types
    {
        use std::str::FromStr;
        let bounds = [0u32, 1, 499_999_999, 500_000_000, 500_000_001, 1_700_000_000, u32::MAX - 1, u32::MAX];
        let mut n_ctor = 0u64;
        for n in bounds {
            let mut lts: Vec<(&str, elements::LockTime)> = vec![("from_consensus", elements::LockTime::from_consensus(n))];
            if let Ok(l) = elements::LockTime::from_height(n) {
                lts.push(("from_height", l));
            }
            if let Ok(l) = elements::LockTime::from_time(n) {
                lts.push(("from_time", l));
            }
            if let Ok(h) = elements::locktime::Height::from_consensus(n) {
                lts.push(("Height::from_consensus", elements::LockTime::from(h)));
            }
            if let Ok(t) = elements::locktime::Time::from_consensus(n) {
                lts.push(("Time::from_consensus", elements::LockTime::from(t)));
            }
            if let Ok(h) = elements::locktime::Height::from_str(&n.to_string()) {
                lts.push(("Height::from_str", elements::LockTime::from(h)));
            }
            if let Ok(t) = elements::locktime::Time::from_str(&n.to_string()) {
                lts.push(("Time::from_str", elements::LockTime::from(t)));
            }
            if let Ok(l) = elements::LockTime::from_str(&n.to_string()) {
                lts.push(("LockTime::from_str", l));
            }
            for (_how, l) in lts {
                n_ctor += 1;
                value_side(r, "LockTime", &l, None);
                // inside a transaction as well (the field is encoded through the same impl)
                let t = elements::Transaction { version: 2, lock_time: l, input: vec![], output: vec![] };
                value_side(r, "Transaction", &t, None);
            }
        }
        let aid = elements::AssetId::from_byte_array(gen::pat32(3));
        for v in [0u64, 1, u64::MAX] {
            n_ctor += 1;
            value_side(r, "TxOut", &elements::TxOut::new_fee(v, aid), None);
        }
        value_side(r, "TxOut", &elements::TxOut::default(), None);
        value_side(r, "TxIn", &elements::TxIn::default(), None);
        value_side(r, "TxInWitness", &elements::TxInWitness::default(), None);
        value_side(r, "TxOutWitness", &elements::TxOutWitness::default(), None);
        value_side(r, "OutPoint", &elements::OutPoint::default(), None);
        value_side(r, "OutPoint", &elements::OutPoint::null(), None);
        value_side(r, "AssetIssuance", &elements::AssetIssuance::default(), None);
        value_side(r, "AssetIssuance", &elements::AssetIssuance::null(), None);
        value_side(r, "Script", &elements::Script::new(), None);
        value_side(r, "Asset", &elements::confidential::Asset::default(), None);
        value_side(r, "Value", &elements::confidential::Value::default(), None);
        value_side(r, "Nonce", &elements::confidential::Nonce::default(), None);
        // a transaction around the default input / output (null outpoint with and without a non-zero txid)
        for txid_pat in [0usize, 2] {
            let mut i = elements::TxIn::default();
            i.previous_output = elements::OutPoint::new(elements::Txid::from_byte_array(if txid_pat == 0 { [0u8; 32] } else { gen::pat32(txid_pat) }), u32::MAX);
            let t = elements::Transaction { version: 2, lock_time: elements::LockTime::ZERO, input: vec![i.clone(), elements::TxIn::default()], output: vec![elements::TxOut::new_fee(1, aid)] };
            value_side(r, "TxIn", &i, None);
            value_side(r, "Transaction", &t, None);
        }
        r.set_extra("constructor_values", json!(n_ctor + 16));
    }
    // length accessors that promise the encoded length without encoding: confidential::{Asset, Value, Nonce}::encoded_length
    // and encode::VarInt::size on both sides of every width boundary
    {
        for a in gen::assets() {
            let v = to_asset(&a);
            if v.encoded_length() != serialize(&v).len() {
                r.violation("value/Asset/encoded_length", json!({"hex": crate::engine::hex(&serialize(&v))}), format!("encoded_length() = {} but {} bytes are written", v.encoded_length(), serialize(&v).len()));
            }
        }
        for a in gen::values() {
            let v = to_value(&a);
            if v.encoded_length() != serialize(&v).len() {
                r.violation("value/Value/encoded_length", json!({"hex": crate::engine::hex(&serialize(&v))}), format!("encoded_length() = {} but {} bytes are written", v.encoded_length(), serialize(&v).len()));
            }
        }
        for a in gen::nonces() {
            let v = to_nonce(&a);
            if v.encoded_length() != serialize(&v).len() {
                r.violation("value/Nonce/encoded_length", json!({"hex": crate::engine::hex(&serialize(&v))}), format!("encoded_length() = {} but {} bytes are written", v.encoded_length(), serialize(&v).len()));
            }
        }
        for n in [0u64, 1, 0xfc, 0xfd, 0xfe, 0xff, 0x100, 0xfffe, 0xffff, 0x1_0000, 0x1_0001, 0xffff_fffe, 0xffff_ffff, 0x1_0000_0000, 0x1_0000_0001, u64::MAX - 1, u64::MAX] {
            r.trans(1);
            let vi = elements::encode::VarInt(n);
            let mut w = Vec::new();
            match vi.consensus_encode(&mut w) {
                Ok(len) => {
                    let back = deserialize::<elements::encode::VarInt>(&w).map(|x| x.0);
                    if len != w.len() || vi.size() != w.len() || back.as_ref().ok() != Some(&n) {
                        r.violation("value/VarInt/size", json!({"n": n}), format!("VarInt({}): size() = {}, encoder reported {}, wrote {} bytes, decodes to {:?}", n, vi.size(), len, w.len(), back));
                    }
                }
                Err(e) => r.violation("value/VarInt/encode-error", json!({"n": n}), format!("{:?}", e)),
            }
        }
    }
    // dynafed params, headers, blocks
    let fulls = gen::full_params(thorough);
    r.set_extra("full_params_generated", json!(fulls.len()));
    for (k, f) in fulls.iter().enumerate() {
        let mut rf = Vec::new();
        enc_full_params(&mut rf, f);
        if let Some(e) = value_side(r, "FullParams", &to_full(f), Some(&rf)) {
            if k % 7 == 0 || e.len() < 24 {
                encs.push(("FullParams", e));
            }
        }
        let p = RParams::Full(f.clone());
        let mut rf = Vec::new();
        enc_params(&mut rf, &p);
        if let Some(e) = value_side(r, "Params", &to_params(&p), Some(&rf)) {
            if k % 11 == 0 {
                encs.push(("Params", e));
            }
        }
        // the library's own constructor: into_compact
        let compact = to_full(f).into_compact();
        if let Some(e) = value_side(r, "Params", &compact, None) {
            if k % 11 == 0 {
                encs.push(("Params", e));
            }
        }
    }
    for p in gen::params_menu() {
        let mut rf = Vec::new();
        enc_params(&mut rf, &p);
        if let Some(e) = value_side(r, "Params", &to_params(&p), Some(&rf)) {
            encs.push(("Params", e));
        }
    }
    let headers = gen::headers();
    r.set_extra("headers_generated", json!(headers.len()));
    for h in &headers {
        if let Some(e) = value_side(r, "BlockHeader", &to_header(h), Some(&h.enc_full())) {
            encs.push(("BlockHeader", e));
        }
    }
    let small_txs: Vec<RTx> = gen::txs_witness_classes().into_iter().step_by(37).take(6).collect();
    for (k, h) in headers.iter().enumerate() {
        if k % 5 != 0 {
            continue;
        }
        for n in 0..=2usize {
            let b = RBlock { header: h.clone(), txs: (0..n).map(|j| small_txs[(k + j) % small_txs.len()].clone()).collect() };
            if let Some(e) = value_side(r, "Block", &to_block(&b), Some(&b.enc_full())) {
                if k % 25 == 0 {
                    encs.push(("Block", e));
                }
            }
        }
    }
    // values produced by the library's blinding functions
    for t in crate::props::c04::blinded_samples(r.seed, r.tier.pick(3, 8)) {
        if let Some(e) = value_side(r, "Transaction", &t, None) {
            encs.push(("Transaction", e));
        }
        for o in &t.output {
            value_side(r, "TxOut", &elements::TxOut { witness: Default::default(), ..o.clone() }, None);
            value_side(r, "TxOutWitness", &o.witness, None);
        }
    }

    // ---------------- byte side
    // distinct encodings only
    encs.sort();
    encs.dedup();
    r.set_extra("distinct_valid_encodings", json!(encs.len()));
    let mut by_type = std::collections::BTreeMap::new();
    for (t, _) in &encs {
        *by_type.entry(*t).or_insert(0u64) += 1;
    }
    r.set_extra("encodings_by_type", json!(by_type));
    // long transaction encodings: keep a bounded, deterministic subset for neighbourhood exploration
    let budget_long = r.tier.pick(60usize, 400);
    let mut long_seen = 0usize;
    let work: Vec<&(&'static str, Vec<u8>)> = encs
        .iter()
        .filter(|(_, e)| {
            if e.len() <= 420 {
                true
            } else {
                long_seen += 1;
                long_seen <= budget_long
            }
        })
        .collect();
    r.set_extra("encodings_explored", json!(work.len()));
    if work.len() < encs.len() {
        r.set_extra("encodings_long_skipped", json!(encs.len() - work.len()));
    }
    work.par_iter().for_each(|(ty, e)| neighbourhood(r, ty, e, d2_max));
    // structure-aware pass over ALL encodings of the composite types, however long: every length / count field
    // of the reference parse tree rewritten to each non-minimal width and to value +-1
    let structured = std::sync::atomic::AtomicU64::new(0);
    encs.par_iter().for_each(|(ty, e)| {
        let marks = match *ty {
            "Transaction" => crate::oracle::parse::tx_marks(e),
            "Block" => crate::oracle::parse::block_marks(e),
            "BlockHeader" => crate::oracle::parse::header_marks(e),
            _ => None,
        };
        if let Some(m) = marks {
            let mut f = |b: &[u8]| {
                dispatch_bytes(r, ty, b);
            };
            let n = crate::oracle::parse::varint_field_deviations(e, &m, &mut f);
            structured.fetch_add(n, std::sync::atomic::Ordering::Relaxed);
        }
    });
    r.set_extra("length_field_deviations", json!(structured.load(std::sync::atomic::Ordering::Relaxed)));
    for (ty, e) in work.iter().take(3) {
        r.sample(json!({"type": ty, "valid_encoding": hex_short(e)}));
    }
    // all short strings for each decoder
    let maxlen = r.tier.pick(2usize, 3);
    TYPES.par_iter().for_each(|ty| {
        let mut f = |b: &[u8]| {
            dispatch_bytes(r, ty, b);
        };
        dev::all_strings(maxlen, &mut f);
    });
    // all 256 prefix bytes x 3 tails for the confidential decoders
    for ty in ["Asset", "Value", "Nonce"] {
        for p in 0..=255u8 {
            for tail in [[0u8; 32], gen::pat32(0), [0xff; 32]] {
                let mut b = vec![p];
                b.extend_from_slice(&tail);
                dispatch_bytes(r, ty, &b);
                b.truncate(9);
                dispatch_bytes(r, ty, &b);
            }
        }
    }
    r.sample(json!({"byte_side_example": "each valid encoding e -> all strings dev1(e) [+ dev2(e) when short] -> decode -> re-encode must equal the input"}));
    r.assume("256-bit payloads and curve points come from fixed menus; hand-built non-canonical structs (flag bits inside vout, dynafed bit inside version, null issuance on flagged input) are outside the property's domain and are not generated");
    r.assume("for encodings longer than 420 bytes the 1-deviation neighbourhood is windowed (head, tail, strided interior); only a bounded number of long encodings is explored (reported)");
}

pub fn replay(case: &Value) -> String {
    let ty = case["type"].as_str().unwrap_or("");
    let r = Report::new("C01", crate::engine::Tier::Quick, 0);
    match case["hex"].as_str() {
        Some(h) => dispatch_bytes(&r, ty, &unhex(h)),
        None => "case has no byte string (value-side case; see 'value' field)".into(),
    }
}
