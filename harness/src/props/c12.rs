//! C12 — size, weight, vsize and discount weight equal the real serialized sizes.
//! Oracle: lengths of the reference encoder's stripped / full serializations and the statement's
//! discount formula evaluated on the reference parse tree.

use crate::engine::{fnv, guard, Report};
use crate::gen;
use crate::oracle::model::*;
use rayon::prelude::*;
use serde_json::{json, Value};

pub fn ref_weight(t: &RTx) -> usize {
    3 * t.enc_stripped().len() + t.enc_full().len()
}

pub fn ref_discount_weight(t: &RTx) -> usize {
    let mut w = ref_weight(t);
    let has_wit = t.has_witness();
    for o in &t.outs {
        if has_wit {
            let mut b = Vec::new();
            enc_outwit(&mut b, o);
            w -= b.len() - 2;
        }
        if matches!(o.value, RValue::Conf(_)) {
            w -= 4 * 24;
        }
        if matches!(o.nonce, RNonce::Conf(_)) {
            w -= 4 * 32;
        }
    }
    w
}

fn check_tx(r: &Report, t: &RTx, tag: &str) {
    r.eval(1);
    r.state(1);
    r.trans(5);
    let lib = to_tx(t);
    let full = t.enc_full();
    let exp_size = full.len();
    let exp_weight = ref_weight(t);
    let exp_dw = ref_discount_weight(t);
    #[allow(deprecated)]
    let got = guard(|| {
        // the deprecated aliases are still public entry points
        if lib.get_size() != lib.size() || lib.get_weight() != lib.weight() {
            return (usize::MAX, lib.get_weight(), lib.vsize(), lib.discount_weight(), lib.discount_vsize(), lib.get_size());
        }
        (lib.size(), lib.weight(), lib.vsize(), lib.discount_weight(), lib.discount_vsize(), elements::encode::serialize(&lib).len())
    });
    let shape = format!(
        "{}/{}in/{}out/w{}",
        tag,
        t.ins.len().min(4),
        t.outs.len().min(4),
        (t.ins.iter().any(|i| !i.wit.is_empty()) as u8) + 2 * (t.outs.iter().any(|o| !o.wit_empty()) as u8)
    );
    match got {
        Err(p) => r.violation(format!("panic/{}", shape), json!({"tx": crate::engine::hex(&full)}), p),
        Ok((size, weight, vsize, dw, dvs, serlen)) => {
            r.trace(1);
            let case = || json!({"tx": crate::engine::hex(&full)});
            if size != exp_size || serlen != exp_size {
                r.violation(format!("size/{}", shape), case(), format!("size()={} serialize().len()={} reference={}", size, serlen, exp_size));
            }
            if weight != exp_weight {
                r.violation(format!("weight/{}", shape), case(), format!("weight()={} reference 3*stripped+full={}", weight, exp_weight));
            }
            if vsize != (exp_weight + 3) / 4 {
                r.violation(format!("vsize/{}", shape), case(), format!("vsize()={} reference={}", vsize, (exp_weight + 3) / 4));
            }
            if dw != exp_dw {
                r.violation(format!("discount-weight/{}", shape), case(), format!("discount_weight()={} reference={}", dw, exp_dw));
            }
            // the per-output proof length accessors used by the discount computation
            for (j, (o, ro)) in lib.output.iter().zip(t.outs.iter()).enumerate() {
                if o.witness.rangeproof_len() != ro.rp.len() || o.witness.surjectionproof_len() != ro.surj.len() {
                    r.violation(format!("proof-len/{}", shape), case(), format!("output {}: rangeproof_len()={} (serialized {}), surjectionproof_len()={} (serialized {})", j, o.witness.rangeproof_len(), ro.rp.len(), o.witness.surjectionproof_len(), ro.surj.len()));
                }
            }
            if dvs != (exp_dw + 3) / 4 {
                r.violation(format!("discount-vsize/{}", shape), case(), format!("discount_vsize()={} reference={}", dvs, (exp_dw + 3) / 4));
            }
            r.nontrivial(fnv(&full));
            r.outcome(&shape);
            if r.sample_room() && t.has_witness() && t.outs.iter().any(|o| matches!(o.value, RValue::Conf(_))) {
                r.sample(json!({"size": size, "weight": weight, "vsize": vsize, "discount_weight": dw, "n_in": t.ins.len(), "n_out": t.outs.len()}));
            }
        }
    }
}

pub fn all_txs(r: &Report) -> Vec<RTx> {
    let mut txs = gen::txs_witness_classes();
    txs.extend(gen::txs_shapes());
    txs.extend(gen::txs_degenerate_witness());
    txs.extend(gen::txs_input_variants());
    txs.extend(gen::txs_varint_boundaries(r.tier.thorough()));
    // outputs over the full confidential-field product, one per transaction and in pairs
    let outs = gen::txouts_small();
    let f = gen::fixtures();
    for (k, o) in outs.iter().enumerate() {
        for wmode in 0..4u8 {
            let mut o = o.clone();
            if wmode & 1 != 0 {
                o.surj = f.sps[k % 2].clone();
            }
            if wmode & 2 != 0 {
                o.rp = f.rps[k % 2].clone();
            }
            let mut i = gen::txin_rep(gen::IN_KINDS[k % 6], 0);
            if k % 3 == 0 {
                i.wit.script_wit = vec![vec![1; k % 5]];
            }
            txs.push(RTx { version: 2, lock_time: 0, ins: vec![i], outs: vec![o.clone(), outs[(k * 7 + 3) % outs.len()].clone()] });
        }
    }
    if r.tier.thorough() {
        for c in crate::props::c03::sig_cases(true) {
            txs.push(c.tx);
        }
    }
    // values produced by the blinders
    for t in crate::props::c04::blinded_samples(r.seed, r.tier.pick(4, 12)) {
        txs.push(from_tx(&t));
    }
    txs
}

pub fn run(r: &Report) {
    r.set_rule(
        "every transaction of the structural generators (all 64 witness-presence classes at every position for 1..2 x 1..2, \
         0..3 x 0..3 shapes over the 6 input kinds, varint boundaries 252/253/65535/65536 on scripts, witness items, counts; \
         every null/explicit/confidential output field combination x 4 output-witness modes; blinder outputs) and blocks \
         (every header kind x 0..2 transactions). non-trivial = distinct transaction encodings",
    );
    let txs = all_txs(r);
    r.set_extra("transactions", json!(txs.len()));
    txs.par_iter().for_each(|t| check_tx(r, t, "tx"));
    // The accessors are pure functions of the value: hidden state (a memo keyed by something that does not determine
    // the answer, e.g. the txid, which ignores witnesses) would make an answer depend on the calls made before it.
    // Histories: the whole case list once more on ONE thread, forwards and then backwards, each transaction also
    // directly after its own witness-stripped and witness-swapped variants (same txid, other sizes).
    {
        let seq: Vec<&RTx> = txs.iter().filter(|t| t.enc_full().len() < 5000).collect();
        for t in seq.iter().chain(seq.iter().rev()) {
            check_tx(r, t, "tx/sequential");
            if t.has_witness() {
                let mut stripped = (*t).clone();
                for i in &mut stripped.ins {
                    i.wit = Default::default();
                }
                for o in &mut stripped.outs {
                    o.surj.clear();
                    o.rp.clear();
                }
                check_tx(r, &stripped, "tx/sequential/stripped-after-full");
                check_tx(r, t, "tx/sequential/full-after-stripped");
            }
        }
        r.add_extra_count("sequential_history_cases", 2 * seq.len() as u64);
    }
    // blocks
    let headers = gen::headers();
    let pool: Vec<RTx> = txs.iter().step_by(97).take(12).cloned().collect();
    let mut blocks = 0u64;
    for (k, h) in headers.iter().enumerate() {
        for n in 0..=2usize {
            let b = RBlock { header: h.clone(), txs: (0..n).map(|j| pool[(k + j * 5) % pool.len()].clone()).collect() };
            let lib = to_block(&b);
            let full = b.enc_full();
            let mut hb = b.header.enc_full();
            varint(&mut hb, b.txs.len() as u64);
            let exp_w = 4 * hb.len() + b.txs.iter().map(ref_weight).sum::<usize>();
            r.eval(1);
            r.state(1);
            r.trans(2);
            blocks += 1;
            #[allow(deprecated)]
            let aliases = guard(|| (lib.get_size(), lib.get_weight()));
            match guard(|| (lib.size(), lib.weight())) {
                Err(p) => r.violation("block/panic", json!({"block": crate::engine::hex(&full)}), p),
                Ok((s, w)) => {
                    r.trace(1);
                    if aliases != Ok((s, w)) {
                        r.violation("block/deprecated-alias-differs", json!({"block": crate::engine::hex(&full)}), format!("get_size/get_weight = {:?}, size/weight = {:?}", aliases, (s, w)));
                    }
                    // same block after its header witness was cleared and restored (same block hash, other sizes)
                    let mut cleared = lib.clone();
                    cleared.header.clear_witness();
                    let exp_cleared = elements::encode::serialize(&cleared).len();
                    if cleared.size() != exp_cleared || lib.size() != s || lib.weight() != w {
                        r.violation("block/size/after-clear_witness", json!({"block": crate::engine::hex(&full)}), format!("size() of the witness-cleared block = {} serialized = {}; size()/weight() of the original afterwards = {}/{} (before {}/{})", cleared.size(), exp_cleared, lib.size(), lib.weight(), s, w));
                    }
                    if s != full.len() {
                        r.violation("block/size", json!({"block": crate::engine::hex(&full)}), format!("size()={} reference={}", s, full.len()));
                    }
                    if w != exp_w {
                        r.violation("block/weight", json!({"block": crate::engine::hex(&full)}), format!("weight()={} reference={}", w, exp_w));
                    }
                    r.nontrivial(fnv(&full));
                }
            }
        }
    }
    // transaction counts 252 / 253 / 65535 / 65536 (minimal transactions)
    {
        let tiny = RTx { version: 2, lock_time: 0, ins: vec![], outs: vec![] };
        let lib_tiny = to_tx(&tiny);
        let tw = ref_weight(&tiny);
        let tl = tiny.enc_full().len();
        for n in [252usize, 253, 65535, 65536] {
            let h = &headers[n % headers.len()];
            let lib = elements::Block { header: to_header(h), txdata: vec![lib_tiny.clone(); n] };
            let mut hb = h.enc_full();
            varint(&mut hb, n as u64);
            let exp_size = hb.len() + n * tl;
            let exp_w = 4 * hb.len() + n * tw;
            r.eval(1);
            r.state(1);
            r.trans(2);
            blocks += 1;
            match guard(|| (lib.size(), lib.weight(), elements::encode::serialize(&lib).len())) {
                Err(p) => r.violation("block/panic", json!({"tx_count": n}), p),
                Ok((s, w, l)) => {
                    r.trace(1);
                    if s != exp_size || l != exp_size {
                        r.violation(format!("block/size/tx-count-{}", n), json!({"tx_count": n}), format!("size()={} serialized={} reference={}", s, l, exp_size));
                    }
                    if w != exp_w {
                        r.violation(format!("block/weight/tx-count-{}", n), json!({"tx_count": n}), format!("weight()={} reference={}", w, exp_w));
                    }
                    r.nontrivial(fnv(&(n as u64).to_le_bytes()) ^ 0xb10c);
                }
            }
        }
    }
    r.set_extra("blocks", json!(blocks));
    r.assume("payloads from fixed menus; reference encoder validated against the library on every generated value (C01 value side) and against pinned txids/block hashes (C02 self-test)");
}

pub fn replay(case: &Value) -> String {
    let r = Report::new("C12", crate::engine::Tier::Quick, 0);
    if let Some(h) = case["tx"].as_str() {
        let b = crate::engine::unhex(h);
        match elements::encode::deserialize::<elements::Transaction>(&b) {
            Ok(t) => {
                check_tx(&r, &from_tx(&t), "tx");
                let v = r.take_violations();
                if v.is_empty() { "HOLDS".into() } else { format!("VIOLATES {}", v[0].1.detail) }
            }
            Err(e) => format!("cannot decode case: {:?}", e),
        }
    } else {
        "block case: re-run the check".into()
    }
}
