//! Crash isolation. The real work runs in a child process (re-exec of this binary). Fatal signals
//! (SIGSEGV, SIGBUS, SIGABRT, SIGILL, SIGFPE) in the child are observations, not machinery errors:
//! an async-signal-safe handler dumps the current thread's "crumb" (label + the input being
//! processed, registered by pointer before every risky call) to a pre-opened file and exits 70.
//! The parent turns that into a VIOLATION with a replay artefact.

use std::cell::Cell;
use std::sync::atomic::{AtomicI32, Ordering};

thread_local! {
    static CRUMB_PTR: Cell<*const u8> = const { Cell::new(std::ptr::null()) };
    static CRUMB_LEN: Cell<usize> = const { Cell::new(0) };
    static LABEL_PTR: Cell<*const u8> = const { Cell::new(std::ptr::null()) };
    static LABEL_LEN: Cell<usize> = const { Cell::new(0) };
}

static CRASH_FD: AtomicI32 = AtomicI32::new(-1);

/// Register the input about to be handed to the crate (valid until the next call to `crumb`).
#[inline]
pub fn crumb(label: &'static str, input: &[u8]) {
    LABEL_PTR.with(|p| p.set(label.as_ptr()));
    LABEL_LEN.with(|p| p.set(label.len()));
    CRUMB_PTR.with(|p| p.set(input.as_ptr()));
    CRUMB_LEN.with(|p| p.set(input.len()));
}

#[inline]
pub fn clear() {
    CRUMB_LEN.with(|p| p.set(0));
    CRUMB_PTR.with(|p| p.set(std::ptr::null()));
}

extern "C" fn handler(sig: libc::c_int) {
    unsafe {
        let fd = CRASH_FD.load(Ordering::Relaxed);
        if fd >= 0 {
            let hdr = [b'S', b'I', b'G', b' ', b'0' + (sig / 10) as u8, b'0' + (sig % 10) as u8, b'\n'];
            libc::write(fd, hdr.as_ptr() as *const libc::c_void, hdr.len());
            let lp = LABEL_PTR.try_with(|p| p.get()).unwrap_or(std::ptr::null());
            let ll = LABEL_LEN.try_with(|p| p.get()).unwrap_or(0);
            if !lp.is_null() && ll > 0 {
                libc::write(fd, lp as *const libc::c_void, ll);
            }
            libc::write(fd, b"\n".as_ptr() as *const libc::c_void, 1);
            let p = CRUMB_PTR.try_with(|p| p.get()).unwrap_or(std::ptr::null());
            let l = CRUMB_LEN.try_with(|p| p.get()).unwrap_or(0);
            if !p.is_null() && l > 0 {
                libc::write(fd, p as *const libc::c_void, l.min(8 << 20));
            }
            libc::fsync(fd);
        }
        libc::_exit(70);
    }
}

pub fn crash_file(pid: u32) -> String {
    format!("/verif/.build/crash-{}.bin", pid)
}

/// Child side: open the crash file and install the handlers.
pub fn install_child() {
    let path = std::ffi::CString::new(crash_file(std::process::id())).unwrap();
    unsafe {
        let fd = libc::open(path.as_ptr(), libc::O_WRONLY | libc::O_CREAT | libc::O_TRUNC, 0o644);
        CRASH_FD.store(fd, Ordering::Relaxed);
        for sig in [libc::SIGSEGV, libc::SIGBUS, libc::SIGABRT, libc::SIGILL, libc::SIGFPE] {
            let mut sa: libc::sigaction = std::mem::zeroed();
            sa.sa_sigaction = handler as usize;
            sa.sa_flags = libc::SA_ONSTACK | libc::SA_NODEFER;
            libc::sigemptyset(&mut sa.sa_mask);
            libc::sigaction(sig, &sa, std::ptr::null_mut());
        }
    }
}

pub struct Crash {
    pub signal: i32,
    pub label: String,
    pub input: Vec<u8>,
}

/// Parent side: run the child, return Ok(exit code) or Err(crash).
pub fn run_child(args: &[String]) -> Result<i32, Crash> {
    let exe = std::env::current_exe().expect("current_exe");
    let mut child = std::process::Command::new(exe).args(args).env("MC_CHILD", "1").spawn().expect("spawn child");
    let pid = child.id();
    let status = child.wait().expect("wait child");
    let path = crash_file(pid);
    let data = std::fs::read(&path).unwrap_or_default();
    let _ = std::fs::remove_file(&path);
    use std::os::unix::process::ExitStatusExt;
    if let Some(sig) = status.signal() {
        return Err(Crash { signal: sig, label: "killed".into(), input: vec![] });
    }
    let code = status.code().unwrap_or(3);
    if code == 70 && data.starts_with(b"SIG ") {
        let mut it = data.splitn(3, |&b| b == b'\n');
        let hdr = it.next().unwrap_or(b"");
        let label = String::from_utf8_lossy(it.next().unwrap_or(b"")).to_string();
        let input = it.next().unwrap_or(b"").to_vec();
        let sig = std::str::from_utf8(&hdr[4..]).ok().and_then(|s| s.trim().parse().ok()).unwrap_or(0);
        return Err(Crash { signal: sig, label, input });
    }
    Ok(code)
}
