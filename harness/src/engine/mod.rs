//! Shared machinery: report/evidence, violation bookkeeping, panic/alloc monitor, deterministic RNG.

pub mod alloc;
pub mod crash;
pub mod dev;

use serde_json::{json, Map, Value};
use std::collections::{BTreeMap, HashSet};
use std::panic::{catch_unwind, AssertUnwindSafe};
use std::sync::atomic::{AtomicU64, Ordering};
use std::sync::Mutex;

#[derive(Clone, Copy, PartialEq, Eq, Debug)]
pub enum Tier {
    Quick,
    Thorough,
}

impl Tier {
    pub fn name(self) -> &'static str {
        match self {
            Tier::Quick => "quick",
            Tier::Thorough => "thorough",
        }
    }
    pub fn thorough(self) -> bool {
        self == Tier::Thorough
    }
    /// pick by tier
    pub fn pick<T>(self, q: T, t: T) -> T {
        match self {
            Tier::Quick => q,
            Tier::Thorough => t,
        }
    }
}

/// One observed violation. `class` is the stable key matched against known_findings.json;
/// `case` is the replayable case description.
#[derive(Clone, Debug)]
pub struct Violation {
    pub class: String,
    pub case: Value,
    pub detail: String,
}

const SHARDS: usize = 64;

pub struct Report {
    pub id: &'static str,
    pub tier: Tier,
    pub seed: u64,
    pub evaluations: AtomicU64,
    pub states: AtomicU64,
    pub transitions: AtomicU64,
    pub traces: AtomicU64,
    pub accepted: AtomicU64,
    pub rejected: AtomicU64,
    nontrivial: Vec<Mutex<HashSet<u64>>>,
    outcomes: Mutex<HashSet<String>>,
    violations: Mutex<BTreeMap<String, (u64, Violation)>>,
    samples: Mutex<Vec<Value>>,
    pub extra: Mutex<Map<String, Value>>,
    pub assumptions: Mutex<Vec<String>>,
    pub rule: Mutex<String>,
    pub exhaustive: Mutex<bool>,
    pub machinery_errors: Mutex<Vec<String>>,
}

impl Report {
    pub fn new(id: &'static str, tier: Tier, seed: u64) -> Self {
        Report {
            id,
            tier,
            seed,
            evaluations: AtomicU64::new(0),
            states: AtomicU64::new(0),
            transitions: AtomicU64::new(0),
            traces: AtomicU64::new(0),
            accepted: AtomicU64::new(0),
            rejected: AtomicU64::new(0),
            nontrivial: (0..SHARDS).map(|_| Mutex::new(HashSet::new())).collect(),
            outcomes: Mutex::new(HashSet::new()),
            violations: Mutex::new(BTreeMap::new()),
            samples: Mutex::new(Vec::new()),
            extra: Mutex::new(Map::new()),
            assumptions: Mutex::new(Vec::new()),
            rule: Mutex::new(String::new()),
            exhaustive: Mutex::new(true),
            machinery_errors: Mutex::new(Vec::new()),
        }
    }
    #[inline]
    pub fn eval(&self, n: u64) {
        self.evaluations.fetch_add(n, Ordering::Relaxed);
    }
    #[inline]
    pub fn state(&self, n: u64) {
        self.states.fetch_add(n, Ordering::Relaxed);
    }
    #[inline]
    pub fn trans(&self, n: u64) {
        self.transitions.fetch_add(n, Ordering::Relaxed);
    }
    #[inline]
    pub fn trace(&self, n: u64) {
        self.traces.fetch_add(n, Ordering::Relaxed);
    }
    #[inline]
    pub fn acc(&self, ok: bool) {
        if ok {
            self.accepted.fetch_add(1, Ordering::Relaxed);
        } else {
            self.rejected.fetch_add(1, Ordering::Relaxed);
        }
    }
    /// record a distinct non-trivial case by a hash of its canonical form
    pub fn nontrivial(&self, h: u64) {
        let s = (h as usize) % SHARDS;
        self.nontrivial[s].lock().unwrap().insert(h);
    }
    pub fn nontrivial_bytes(&self, b: &[u8]) {
        self.nontrivial(fnv(b));
    }
    pub fn nontrivial_count(&self) -> u64 {
        self.nontrivial.iter().map(|m| m.lock().unwrap().len() as u64).sum()
    }
    pub fn outcome(&self, o: &str) {
        let mut g = self.outcomes.lock().unwrap();
        if g.len() < 4096 && !g.contains(o) {
            g.insert(o.to_string());
        }
    }
    pub fn sample(&self, v: Value) {
        let mut g = self.samples.lock().unwrap();
        if g.len() < 6 {
            g.push(v);
        }
    }
    pub fn sample_room(&self) -> bool {
        self.samples.lock().unwrap().len() < 6
    }
    pub fn violation(&self, class: impl Into<String>, case: Value, detail: impl Into<String>) {
        let class = class.into();
        let mut g = self.violations.lock().unwrap();
        match g.get_mut(&class) {
            Some(e) => e.0 += 1,
            None => {
                g.insert(class.clone(), (1, Violation { class, case, detail: detail.into() }));
            }
        }
    }
    pub fn set_extra(&self, k: &str, v: Value) {
        self.extra.lock().unwrap().insert(k.to_string(), v);
    }
    pub fn add_extra_count(&self, k: &str, n: u64) {
        let mut g = self.extra.lock().unwrap();
        let cur = g.get(k).and_then(|v| v.as_u64()).unwrap_or(0);
        g.insert(k.to_string(), json!(cur + n));
    }
    pub fn assume(&self, s: &str) {
        self.assumptions.lock().unwrap().push(s.to_string());
    }
    pub fn set_rule(&self, s: &str) {
        *self.rule.lock().unwrap() = s.to_string();
    }
    pub fn not_exhaustive(&self) {
        *self.exhaustive.lock().unwrap() = false;
    }
    pub fn machinery(&self, s: impl Into<String>) {
        self.machinery_errors.lock().unwrap().push(s.into());
    }
    pub fn take_violations(&self) -> Vec<(u64, Violation)> {
        self.violations.lock().unwrap().values().cloned().collect()
    }
    pub fn outcomes_count(&self) -> usize {
        self.outcomes.lock().unwrap().len()
    }
    pub fn samples(&self) -> Vec<Value> {
        self.samples.lock().unwrap().clone()
    }
}

pub fn fnv(b: &[u8]) -> u64 {
    let mut h: u64 = 0xcbf29ce484222325;
    for &x in b {
        h ^= x as u64;
        h = h.wrapping_mul(0x100000001b3);
    }
    h
}

pub fn hex(b: &[u8]) -> String {
    let mut s = String::with_capacity(b.len() * 2);
    for x in b {
        s.push_str(&format!("{:02x}", x));
    }
    s
}

pub fn hex_short(b: &[u8]) -> String {
    if b.len() <= 96 {
        hex(b)
    } else {
        format!("{}..({} bytes)..{}", hex(&b[..40]), b.len(), hex(&b[b.len() - 16..]))
    }
}

pub fn unhex(s: &str) -> Vec<u8> {
    let s = s.as_bytes();
    assert!(s.len() % 2 == 0, "odd hex");
    let v = |c: u8| -> u8 {
        match c {
            b'0'..=b'9' => c - b'0',
            b'a'..=b'f' => c - b'a' + 10,
            b'A'..=b'F' => c - b'A' + 10,
            _ => panic!("bad hex"),
        }
    };
    (0..s.len() / 2).map(|i| (v(s[2 * i]) << 4) | v(s[2 * i + 1])).collect()
}

thread_local! {
    static LAST_PANIC: std::cell::RefCell<String> = const { std::cell::RefCell::new(String::new()) };
}

pub fn install_panic_hook() {
    std::panic::set_hook(Box::new(|info| {
        let loc = info.location().map(|l| format!("{}:{}", l.file(), l.line())).unwrap_or_default();
        let msg = if let Some(s) = info.payload().downcast_ref::<&str>() {
            s.to_string()
        } else if let Some(s) = info.payload().downcast_ref::<String>() {
            s.clone()
        } else {
            "<non-string panic>".to_string()
        };
        LAST_PANIC.with(|p| *p.borrow_mut() = format!("{} @ {}", msg, loc));
    }));
}

/// Run `f`, converting a panic into Err(message @ location).
pub fn guard<T>(f: impl FnOnce() -> T) -> Result<T, String> {
    match catch_unwind(AssertUnwindSafe(f)) {
        Ok(v) => Ok(v),
        Err(_) => Err(LAST_PANIC.with(|p| p.borrow().clone())),
    }
}

/// Panic location only (file:line) — stable key for classes
pub fn panic_site(msg: &str) -> String {
    match msg.rfind(" @ ") {
        Some(i) => {
            let loc = &msg[i + 3..];
            // strip leading path up to src/
            match loc.find("src/") {
                Some(j) => loc[j..].to_string(),
                None => loc.to_string(),
            }
        }
        None => msg.to_string(),
    }
}

/// Deterministic counter-mode RNG over the harness's own SHA-256.
pub struct DetRng {
    key: [u8; 32],
    ctr: u64,
    buf: [u8; 32],
    pos: usize,
}

impl DetRng {
    pub fn new(seed: u64, case: u64, stream: u64) -> Self {
        let mut k = Vec::with_capacity(32);
        k.extend_from_slice(b"verifrng");
        k.extend_from_slice(&seed.to_le_bytes());
        k.extend_from_slice(&case.to_le_bytes());
        k.extend_from_slice(&stream.to_le_bytes());
        DetRng { key: crate::oracle::sha256::sha256(&k), ctr: 0, buf: [0; 32], pos: 32 }
    }
    fn refill(&mut self) {
        let mut m = [0u8; 40];
        m[..32].copy_from_slice(&self.key);
        m[32..].copy_from_slice(&self.ctr.to_le_bytes());
        self.buf = crate::oracle::sha256::sha256(&m);
        self.ctr += 1;
        self.pos = 0;
    }
    pub fn bytes32(&mut self) -> [u8; 32] {
        let mut o = [0u8; 32];
        use elements::secp256k1_zkp::rand::RngCore;
        self.fill_bytes(&mut o);
        o
    }
}

impl elements::secp256k1_zkp::rand::RngCore for DetRng {
    fn next_u32(&mut self) -> u32 {
        let mut b = [0u8; 4];
        self.fill_bytes(&mut b);
        u32::from_le_bytes(b)
    }
    fn next_u64(&mut self) -> u64 {
        let mut b = [0u8; 8];
        self.fill_bytes(&mut b);
        u64::from_le_bytes(b)
    }
    fn fill_bytes(&mut self, dest: &mut [u8]) {
        for d in dest.iter_mut() {
            if self.pos == 32 {
                self.refill();
            }
            *d = self.buf[self.pos];
            self.pos += 1;
        }
    }
    fn try_fill_bytes(&mut self, dest: &mut [u8]) -> Result<(), elements::secp256k1_zkp::rand::Error> {
        self.fill_bytes(dest);
        Ok(())
    }
}
impl elements::secp256k1_zkp::rand::CryptoRng for DetRng {}

/// Mixed-radix product enumerator: calls f(&digits) for every vector in prod(radices).
pub fn product(radices: &[usize], mut f: impl FnMut(&[usize])) {
    if radices.iter().any(|&r| r == 0) {
        return;
    }
    let mut d = vec![0usize; radices.len()];
    loop {
        f(&d);
        let mut i = 0;
        loop {
            if i == radices.len() {
                return;
            }
            d[i] += 1;
            if d[i] < radices[i] {
                break;
            }
            d[i] = 0;
            i += 1;
        }
    }
}

/// All vectors of the product as a Vec (for parallel iteration).
pub fn product_vec(radices: &[usize]) -> Vec<Vec<usize>> {
    let mut v = Vec::new();
    product(radices, |d| v.push(d.to_vec()));
    v
}

/// All permutations of 0..n
pub fn permutations(n: usize) -> Vec<Vec<usize>> {
    fn rec(cur: &mut Vec<usize>, used: &mut Vec<bool>, n: usize, out: &mut Vec<Vec<usize>>) {
        if cur.len() == n {
            out.push(cur.clone());
            return;
        }
        for i in 0..n {
            if !used[i] {
                used[i] = true;
                cur.push(i);
                rec(cur, used, n, out);
                cur.pop();
                used[i] = false;
            }
        }
    }
    let mut out = Vec::new();
    rec(&mut Vec::new(), &mut vec![false; n], n, &mut out);
    out
}
