//! Counting allocator: per-thread live bytes and peak, so that a single call's peak allocation can
//! be measured (C10 "no allocation out of proportion to the input").

use std::alloc::{GlobalAlloc, Layout, System};
use std::cell::Cell;

pub struct Counting;

thread_local! {
    static LIVE: Cell<isize> = const { Cell::new(0) };
    static PEAK: Cell<isize> = const { Cell::new(0) };
}

#[inline]
fn add(n: isize) {
    let _ = LIVE.try_with(|l| {
        let v = l.get() + n;
        l.set(v);
        let _ = PEAK.try_with(|p| {
            if v > p.get() {
                p.set(v);
            }
        });
    });
}

unsafe impl GlobalAlloc for Counting {
    unsafe fn alloc(&self, l: Layout) -> *mut u8 {
        let p = System.alloc(l);
        if !p.is_null() {
            add(l.size() as isize);
        }
        p
    }
    unsafe fn dealloc(&self, p: *mut u8, l: Layout) {
        System.dealloc(p, l);
        add(-(l.size() as isize));
    }
    unsafe fn alloc_zeroed(&self, l: Layout) -> *mut u8 {
        let p = System.alloc_zeroed(l);
        if !p.is_null() {
            add(l.size() as isize);
        }
        p
    }
    unsafe fn realloc(&self, p: *mut u8, l: Layout, new: usize) -> *mut u8 {
        let q = System.realloc(p, l, new);
        if !q.is_null() {
            add(new as isize - l.size() as isize);
        }
        q
    }
}

/// Run f and return (result, peak additional live bytes on this thread during the call).
pub fn measure<T>(f: impl FnOnce() -> T) -> (T, usize) {
    let base = LIVE.with(|l| l.get());
    let old_peak = PEAK.with(|p| p.replace(base));
    let r = f();
    let peak = PEAK.with(|p| p.get());
    // restore an outer measurement's view
    PEAK.with(|p| p.set(peak.max(old_peak)));
    (r, (peak - base).max(0) as usize)
}
