//! Deviation explorer "D": all byte strings at <= d single-location departures from a valid encoding
//! (CHESS-style iterative bounding with "preemption" replaced by "departure from the canonical
//! encoding"), plus all short strings.

/// Replacement values tried at one byte position (all != b, deduplicated):
/// every single-bit flip, +1, -1, 0x00, 0xff, and the structurally interesting bytes
/// (varint markers fd/fe/ff, confidential prefixes 00..0b, flags 0..2, push opcodes 4c..4e, 0x50, 0x51, 0x60).
pub fn byte_menu(b: u8) -> Vec<u8> {
    let mut seen = [false; 256];
    let mut out = Vec::with_capacity(32);
    let mut push = |v: u8| {
        if v != b && !seen[v as usize] {
            seen[v as usize] = true;
            out.push(v);
        }
    };
    for k in 0..8 {
        push(b ^ (1 << k));
    }
    push(b.wrapping_add(1));
    push(b.wrapping_sub(1));
    for v in [0x00u8, 0xff, 0xfd, 0xfe, 0xfc, 0x80, 0x7f] {
        push(v);
    }
    for v in 0x00u8..=0x0b {
        push(v);
    }
    for v in [0x4bu8, 0x4c, 0x4d, 0x4e, 0x4f, 0x50, 0x51, 0x60, 0x61, 0x20, 0x21, 0x14] {
        push(v);
    }
    out
}

/// Smaller menu used for the second location in d=2 exploration.
pub fn byte_menu_small(b: u8) -> Vec<u8> {
    let mut seen = [false; 256];
    let mut out = Vec::with_capacity(12);
    let mut push = |v: u8| {
        if v != b && !seen[v as usize] {
            seen[v as usize] = true;
            out.push(v);
        }
    };
    push(b ^ 1);
    push(b ^ 0x80);
    push(b.wrapping_add(1));
    push(b.wrapping_sub(1));
    for v in [0x00u8, 0x01, 0x02, 0xff, 0xfd] {
        push(v);
    }
    out
}

/// Enumerate all strings at exactly one deviation from `e`. Calls f(string, kind, position).
/// Returns the number of strings produced.
pub fn dev1(e: &[u8], f: &mut dyn FnMut(&[u8], &'static str, usize)) -> u64 {
    dev1_at(e, &|_| true, f)
}

/// Positions explored for long encodings: the first `head` bytes, the last `tail` bytes and every
/// `stride`-th byte in between.
pub fn window(len: usize, head: usize, tail: usize, stride: usize) -> impl Fn(usize) -> bool {
    move |i| i < head || i + tail >= len || i % stride == 0
}

/// dev1 restricted to the positions selected by `sel` (truncations use the same selection).
pub fn dev1_at(e: &[u8], sel: &dyn Fn(usize) -> bool, f: &mut dyn FnMut(&[u8], &'static str, usize)) -> u64 {
    let mut n = 0u64;
    let mut buf = e.to_vec();
    // substitutions
    for i in 0..e.len() {
        if !sel(i) {
            continue;
        }
        let orig = e[i];
        for v in byte_menu(orig) {
            buf[i] = v;
            f(&buf, "subst", i);
            n += 1;
        }
        buf[i] = orig;
    }
    // truncations (every proper prefix, including empty)
    for l in 0..e.len() {
        if !sel(l) {
            continue;
        }
        f(&e[..l], "trunc", l);
        n += 1;
    }
    // extensions
    for t in [0x00u8, 0x01, 0xff] {
        let mut x = e.to_vec();
        x.push(t);
        f(&x, "extend", e.len());
        n += 1;
    }
    // deletion of one byte, insertion of one byte
    for i in 0..e.len() {
        if !sel(i) {
            continue;
        }
        let mut x = e.to_vec();
        x.remove(i);
        f(&x, "delete", i);
        n += 1;
    }
    for i in 0..=e.len() {
        if !sel(i.min(e.len().saturating_sub(1))) {
            continue;
        }
        for t in [0x00u8, 0x01] {
            let mut x = e.to_vec();
            x.insert(i, t);
            f(&x, "insert", i);
            n += 1;
        }
    }
    // non-minimal varint rewrites at every position: a byte b < 0xfd read as a 1-byte varint is
    // rewritten to its 3-, 5- and 9-byte forms; a 3-byte form to 5 and 9; a 5-byte form to 9.
    for i in 0..e.len() {
        if !sel(i) {
            continue;
        }
        let b = e[i];
        if b < 0xfd {
            for (marker, pad) in [(0xfdu8, 1usize), (0xfe, 3), (0xff, 7)] {
                let mut x = Vec::with_capacity(e.len() + pad + 1);
                x.extend_from_slice(&e[..i]);
                x.push(marker);
                x.push(b);
                x.extend(std::iter::repeat(0u8).take(pad));
                x.extend_from_slice(&e[i + 1..]);
                f(&x, "varint-widen", i);
                n += 1;
            }
        } else if b == 0xfd && i + 2 < e.len() + 0 && i + 3 <= e.len() {
            for (marker, pad) in [(0xfeu8, 2usize), (0xff, 6)] {
                let mut x = Vec::with_capacity(e.len() + pad);
                x.extend_from_slice(&e[..i]);
                x.push(marker);
                x.extend_from_slice(&e[i + 1..i + 3]);
                x.extend(std::iter::repeat(0u8).take(pad));
                x.extend_from_slice(&e[i + 3..]);
                f(&x, "varint-widen", i);
                n += 1;
            }
        } else if b == 0xfe && i + 5 <= e.len() {
            let mut x = Vec::with_capacity(e.len() + 4);
            x.extend_from_slice(&e[..i]);
            x.push(0xff);
            x.extend_from_slice(&e[i + 1..i + 5]);
            x.extend_from_slice(&[0, 0, 0, 0]);
            x.extend_from_slice(&e[i + 5..]);
            f(&x, "varint-widen", i);
            n += 1;
        }
    }
    // huge length fields at every position (allocation bombs): b -> fe ff ff ff 7f / ff .. / fe 01 09 3d 00 (4_000_001)
    for i in 0..e.len() {
        if !sel(i) {
            continue;
        }
        for rep in [
            &[0xfeu8, 0xff, 0xff, 0xff, 0xff][..],
            &[0xff, 0xff, 0xff, 0xff, 0xff, 0xff, 0xff, 0xff, 0xff][..],
            &[0xfe, 0x01, 0x09, 0x3d, 0x00][..],
            &[0xfe, 0x00, 0x09, 0x3d, 0x00][..],
            &[0xff, 0x00, 0x00, 0x00, 0x00, 0x01, 0x00, 0x00, 0x00][..],
        ] {
            let mut x = Vec::with_capacity(e.len() + 9);
            x.extend_from_slice(&e[..i]);
            x.extend_from_slice(rep);
            x.extend_from_slice(&e[i + 1..]);
            f(&x, "huge-len", i);
            n += 1;
        }
    }
    n
}

/// All strings at exactly two substitution deviations (positions i<j), second from the small menu.
pub fn dev2(e: &[u8], f: &mut dyn FnMut(&[u8], &'static str, usize)) -> u64 {
    let mut n = 0u64;
    let mut buf = e.to_vec();
    for i in 0..e.len() {
        let oi = e[i];
        for vi in byte_menu_small(oi) {
            buf[i] = vi;
            for j in i + 1..e.len() {
                let oj = e[j];
                for vj in byte_menu_small(oj) {
                    buf[j] = vj;
                    f(&buf, "subst2", i * 65536 + j);
                    n += 1;
                }
                buf[j] = oj;
            }
            // substitution + truncation
            for l in i + 1..e.len() {
                f(&buf[..l], "subst+trunc", i * 65536 + l);
                n += 1;
            }
        }
        buf[i] = oi;
    }
    n
}

/// All byte strings of length 0..=max_len.
pub fn all_strings(max_len: usize, f: &mut dyn FnMut(&[u8])) -> u64 {
    let mut n = 0u64;
    for len in 0..=max_len {
        let mut b = vec![0u8; len];
        loop {
            f(&b);
            n += 1;
            let mut i = 0;
            loop {
                if i == len {
                    break;
                }
                if b[i] == 0xff {
                    b[i] = 0;
                    i += 1;
                } else {
                    b[i] += 1;
                    break;
                }
            }
            if i == len {
                break;
            }
        }
    }
    n
}
