//! PSET generator: base PSETs and the alphabet of optional / map field additions for Global, Input
//! and Output (each with two distinct values), used by C07, C08, C14 and C20.

use crate::gen::{self, pat32};
use crate::oracle::model::{to_rp, to_sp, to_tx};
use elements::bitcoin::bip32::{ChildNumber, DerivationPath, Fingerprint, Xpub};
use elements::hashes::{hash160, ripemd160, sha256, sha256d, Hash};
use elements::pset::{raw, Input, Output, PartiallySignedTransaction as Pset, PsbtSighashType, TapTree};
use elements::schnorr::SchnorrSig;
use elements::secp256k1_zkp as zkp;
use elements::taproot::{ControlBlock, LeafVersion, TapLeafHash, TapNodeHash, TaprootBuilder};
use elements::{AssetId, BlockHash, LockTime, OutPoint, SchnorrSighashType, Script, Sequence, Transaction, TxOut, Txid};

pub fn btc_pk(i: u64) -> elements::bitcoin::PublicKey {
    elements::bitcoin::PublicKey::new(zkp::PublicKey::from_secret_key(gen::secp(), &gen::sk(2000 + i)))
}
/// the same key family in the uncompressed (65-byte) form
pub fn btc_pk_uncompressed(i: u64) -> elements::bitcoin::PublicKey {
    elements::bitcoin::PublicKey::new_uncompressed(zkp::PublicKey::from_secret_key(gen::secp(), &gen::sk(2000 + i)))
}
pub fn xonly(i: u64) -> zkp::XOnlyPublicKey {
    zkp::PublicKey::from_secret_key(gen::secp(), &gen::sk(2100 + i)).x_only_public_key().0
}
pub fn key_source(i: u64) -> (Fingerprint, DerivationPath) {
    let fp = Fingerprint::from([i as u8, 2, 3, 4]);
    let path: Vec<ChildNumber> = (0..(1 + i % 3)).map(|k| ChildNumber::from(k as u32 + (i as u32) * 7 + if k == 0 { 0x8000_0000 } else { 0 })).collect();
    (fp, DerivationPath::from(path))
}
pub fn schnorr_sig(i: u64) -> SchnorrSig {
    let mut b = [0u8; 64];
    b[..32].copy_from_slice(&pat32(i as usize));
    b[32..].copy_from_slice(&pat32(i as usize + 1));
    SchnorrSig { sig: zkp::schnorr::Signature::from_slice(&b).unwrap(), hash_ty: if i % 2 == 0 { SchnorrSighashType::Default } else { SchnorrSighashType::SinglePlusAnyoneCanPay } }
}
pub fn leaf_hash(i: u64) -> TapLeafHash {
    TapLeafHash::from_script(&Script::from(vec![0x51 + i as u8]), LeafVersion::default())
}
pub fn control_block(i: u64) -> ControlBlock {
    let mut v = vec![0xc4 | (i as u8 & 1)];
    v.extend_from_slice(&xonly(i).serialize());
    for k in 0..(i % 3) {
        v.extend_from_slice(&pat32(k as usize + 1));
    }
    ControlBlock::from_slice(&v).unwrap()
}
pub fn xpub(i: u64) -> Xpub {
    // 78-byte serialized extended public key: version, depth, parent fp, child, chain code, key
    let mut v = vec![0x04, 0x88, 0xb2, 0x1e, i as u8, 0, 0, 0, 0, 0, 0, 0, 0];
    v.extend_from_slice(&pat32(i as usize));
    v.extend_from_slice(&btc_pk(i).inner.serialize());
    Xpub::decode(&v).unwrap()
}
pub fn prop_key(i: u64) -> raw::ProprietaryKey {
    match i % 3 {
        0 => raw::ProprietaryKey { prefix: b"foreign".to_vec(), subtype: i as u8, key: vec![1, 2] },
        1 => raw::ProprietaryKey { prefix: b"pset".to_vec(), subtype: 0xf0 + (i as u8 % 8), key: vec![i as u8] },
        _ => raw::ProprietaryKey { prefix: vec![], subtype: 7, key: vec![] },
    }
}
pub fn unknown_key(i: u64) -> raw::Key {
    raw::Key { type_value: 0x30 + i as u8, key: if i % 2 == 0 { vec![] } else { vec![i as u8, 0xff] } }
}
pub fn small_tx(i: u64) -> Transaction {
    let t = gen::txs_witness_classes();
    to_tx(&t[(i as usize * 37 + 5) % t.len()])
}
pub fn btc_tx(i: u64) -> elements::bitcoin::Transaction {
    // minimal bitcoin transaction: version, 1 input, 1 output, locktime
    let mut v = vec![2, 0, 0, 0, 1];
    v.extend_from_slice(&pat32(i as usize));
    v.extend_from_slice(&[i as u8, 0, 0, 0, 0, 0xff, 0xff, 0xff, 0xff, 1]);
    v.extend_from_slice(&(1000 + i).to_le_bytes());
    v.extend_from_slice(&[1, 0x51, 0, 0, 0, 0]);
    elements::bitcoin::consensus::deserialize(&v).unwrap()
}
pub fn wit_utxo(i: u64) -> TxOut {
    crate::oracle::model::to_txout(&crate::props::c03::spent_output(i as usize, i as usize))
}
pub fn rp(i: u64) -> Box<zkp::RangeProof> {
    to_rp(&gen::fixtures().rps[i as usize % 2]).unwrap()
}
pub fn sp(i: u64) -> Box<zkp::SurjectionProof> {
    to_sp(&gen::fixtures().sps[i as usize % 2]).unwrap()
}
pub fn comm(i: u64) -> zkp::PedersenCommitment {
    zkp::PedersenCommitment::from_slice(&gen::fixtures().comms[i as usize % 4]).unwrap()
}
pub fn generator(i: u64) -> zkp::Generator {
    zkp::Generator::from_slice(&gen::fixtures().gens[i as usize % 4]).unwrap()
}
/// tap tree from a valid DFS depth listing with distinct leaves
pub fn tap_tree(depths: &[usize], salt: u8) -> TapTree {
    let mut b = TaprootBuilder::new();
    for (i, &d) in depths.iter().enumerate() {
        b = b
            .add_leaf_with_ver(d, Script::from(vec![0x51 + i as u8, salt]), if i % 3 == 2 { LeafVersion::from_u8(0xc0).unwrap() } else { LeafVersion::default() })
            .unwrap();
    }
    TapTree::from_inner(b).unwrap()
}

pub struct Field<T> {
    pub name: &'static str,
    pub map: bool,
    pub set: Box<dyn Fn(&mut T, u64) + Send + Sync>,
}

fn f<T>(name: &'static str, map: bool, set: impl Fn(&mut T, u64) + Send + Sync + 'static) -> Field<T> {
    Field { name, map, set: Box::new(set) }
}

/// every optional / map field of a PSET input (value variant v in {0,1}; maps get key variant v)
pub fn input_fields() -> Vec<Field<Input>> {
    vec![
        f("non_witness_utxo", false, |x: &mut Input, v| x.non_witness_utxo = Some(small_tx(v))),
        f("witness_utxo", false, |x: &mut Input, v| x.witness_utxo = Some(wit_utxo(v))),
        f("partial_sigs", true, |x: &mut Input, v| {
            x.partial_sigs.insert(btc_pk(v), vec![0x30, 0x44, v as u8, 1]);
        }),
        f("partial_sigs(uncompressed key)", true, |x: &mut Input, v| {
            x.partial_sigs.insert(btc_pk_uncompressed(v), vec![0x30, 0x45, v as u8]);
        }),
        f("bip32_derivation(uncompressed key)", true, |x: &mut Input, v| {
            x.bip32_derivation.insert(btc_pk_uncompressed(10 + v), key_source(v + 2));
        }),
        f("sighash_type", false, |x: &mut Input, v| x.sighash_type = Some(PsbtSighashType::from_u32([1u32, 0x83][v as usize % 2]))),
        f("redeem_script", false, |x: &mut Input, v| x.redeem_script = Some(Script::from(vec![0x51, v as u8]))),
        f("witness_script", false, |x: &mut Input, v| x.witness_script = Some(Script::from(vec![0x52, v as u8, 0x75]))),
        f("bip32_derivation", true, |x: &mut Input, v| {
            x.bip32_derivation.insert(btc_pk(10 + v), key_source(v));
        }),
        f("final_script_sig", false, |x: &mut Input, v| x.final_script_sig = Some(Script::from(vec![0x01, v as u8]))),
        f("final_script_witness", false, |x: &mut Input, v| x.final_script_witness = Some(vec![vec![v as u8; 3], vec![]])),
        f("ripemd160_preimages", true, |x: &mut Input, v| {
            let p = vec![v as u8, 1, 2];
            x.ripemd160_preimages.insert(ripemd160::Hash::hash(&p), p);
        }),
        f("sha256_preimages", true, |x: &mut Input, v| {
            let p = vec![v as u8, 3];
            x.sha256_preimages.insert(sha256::Hash::hash(&p), p);
        }),
        f("hash160_preimages", true, |x: &mut Input, v| {
            let p = vec![v as u8; 4];
            x.hash160_preimages.insert(hash160::Hash::hash(&p), p);
        }),
        f("hash256_preimages", true, |x: &mut Input, v| {
            let p = vec![v as u8, 9, 9];
            x.hash256_preimages.insert(sha256d::Hash::hash(&p), p);
        }),
        f("sequence", false, |x: &mut Input, v| x.sequence = Some(Sequence([0xffff_fffdu32, 5][v as usize % 2]))),
        f("required_time_locktime", false, |x: &mut Input, v| x.required_time_locktime = Some(elements::locktime::Time::from_consensus(500_000_000 + v as u32).unwrap())),
        f("required_height_locktime", false, |x: &mut Input, v| x.required_height_locktime = Some(elements::locktime::Height::from_consensus(100 + v as u32).unwrap())),
        f("tap_key_sig", false, |x: &mut Input, v| x.tap_key_sig = Some(schnorr_sig(v))),
        f("tap_script_sigs", true, |x: &mut Input, v| {
            x.tap_script_sigs.insert((xonly(v), leaf_hash(v)), schnorr_sig(v + 2));
        }),
        f("tap_scripts", true, |x: &mut Input, v| {
            x.tap_scripts.insert(control_block(v), (Script::from(vec![0x51, v as u8]), LeafVersion::default()));
        }),
        f("tap_key_origins", true, |x: &mut Input, v| {
            x.tap_key_origins.insert(xonly(5 + v), (vec![leaf_hash(v), leaf_hash(v + 1)], key_source(v + 3)));
        }),
        f("tap_internal_key", false, |x: &mut Input, v| x.tap_internal_key = Some(xonly(20 + v))),
        f("tap_merkle_root", false, |x: &mut Input, v| x.tap_merkle_root = Some(TapNodeHash::from_byte_array(pat32(v as usize)))),
        f("issuance_value_amount", false, |x: &mut Input, v| x.issuance_value_amount = Some(1000 + v)),
        f("issuance_value_comm", false, |x: &mut Input, v| x.issuance_value_comm = Some(comm(v))),
        f("issuance_value_rangeproof", false, |x: &mut Input, v| x.issuance_value_rangeproof = Some(rp(v))),
        f("issuance_keys_rangeproof", false, |x: &mut Input, v| x.issuance_keys_rangeproof = Some(rp(v + 1))),
        f("pegin_tx", false, |x: &mut Input, v| x.pegin_tx = Some(btc_tx(v))),
        f("pegin_txout_proof", false, |x: &mut Input, v| x.pegin_txout_proof = Some(vec![v as u8; 5])),
        f("pegin_genesis_hash", false, |x: &mut Input, v| x.pegin_genesis_hash = Some(BlockHash::from_byte_array(pat32(v as usize + 2)))),
        f("pegin_claim_script", false, |x: &mut Input, v| x.pegin_claim_script = Some(Script::from(vec![0x00, 0x14, v as u8]))),
        f("pegin_value", false, |x: &mut Input, v| x.pegin_value = Some(5_000 + v)),
        f("pegin_witness", false, |x: &mut Input, v| x.pegin_witness = Some(vec![vec![v as u8], vec![], vec![1, 2, 3]])),
        f("issuance_inflation_keys", false, |x: &mut Input, v| x.issuance_inflation_keys = Some(3 + v)),
        f("issuance_inflation_keys_comm", false, |x: &mut Input, v| x.issuance_inflation_keys_comm = Some(comm(v + 2))),
        f("issuance_blinding_nonce", false, |x: &mut Input, v| x.issuance_blinding_nonce = Some(gen::tweak(3000 + v))),
        f("issuance_asset_entropy", false, |x: &mut Input, v| x.issuance_asset_entropy = Some(pat32(v as usize + 4))),
        f("in_utxo_rangeproof", false, |x: &mut Input, v| x.in_utxo_rangeproof = Some(rp(v))),
        f("in_issuance_blind_value_proof", false, |x: &mut Input, v| x.in_issuance_blind_value_proof = Some(rp(v))),
        f("in_issuance_blind_inflation_keys_proof", false, |x: &mut Input, v| x.in_issuance_blind_inflation_keys_proof = Some(rp(v + 1))),
        f("amount", false, |x: &mut Input, v| x.amount = Some(77 + v)),
        f("blind_value_proof", false, |x: &mut Input, v| x.blind_value_proof = Some(rp(v))),
        f("asset", false, |x: &mut Input, v| x.asset = Some(AssetId::from_byte_array(pat32(v as usize)))),
        f("blind_asset_proof", false, |x: &mut Input, v| x.blind_asset_proof = Some(sp(v))),
        f("blinded_issuance", false, |x: &mut Input, v| x.blinded_issuance = Some(v as u8 % 2)),
        f("proprietary", true, |x: &mut Input, v| {
            x.proprietary.insert(prop_key(v), vec![v as u8, 0xaa]);
        }),
        f("unknown", true, |x: &mut Input, v| {
            x.unknown.insert(unknown_key(v), vec![v as u8; 2]);
        }),
    ]
}

pub fn output_fields() -> Vec<Field<Output>> {
    vec![
        f("redeem_script", false, |x: &mut Output, v| x.redeem_script = Some(Script::from(vec![0x51, v as u8]))),
        f("witness_script", false, |x: &mut Output, v| x.witness_script = Some(Script::from(vec![0x53, v as u8]))),
        f("bip32_derivation", true, |x: &mut Output, v| {
            x.bip32_derivation.insert(btc_pk(30 + v), key_source(v + 1));
        }),
        f("tap_internal_key", false, |x: &mut Output, v| x.tap_internal_key = Some(xonly(40 + v))),
        f("tap_tree", false, |x: &mut Output, v| x.tap_tree = Some(tap_tree(&[[1usize, 2, 2], [1, 1, 0]][v as usize % 2][..if v % 2 == 0 { 3 } else { 2 }], v as u8))),
        f("tap_key_origins", true, |x: &mut Output, v| {
            x.tap_key_origins.insert(xonly(50 + v), (vec![leaf_hash(v)], key_source(v + 5)));
        }),
        f("value_rangeproof", false, |x: &mut Output, v| x.value_rangeproof = Some(rp(v))),
        f("asset_surjection_proof", false, |x: &mut Output, v| x.asset_surjection_proof = Some(sp(v))),
        f("ecdh_pubkey", false, |x: &mut Output, v| x.ecdh_pubkey = Some(if v % 2 == 0 { btc_pk(60 + v) } else { btc_pk_uncompressed(60 + v) })),
        f("bip32_derivation(uncompressed key)", true, |x: &mut Output, v| {
            x.bip32_derivation.insert(btc_pk_uncompressed(30 + v), key_source(v + 4));
        }),
        f("blind_value_proof", false, |x: &mut Output, v| x.blind_value_proof = Some(rp(v + 1))),
        f("blind_asset_proof", false, |x: &mut Output, v| x.blind_asset_proof = Some(sp(v + 1))),
        f("proprietary", true, |x: &mut Output, v| {
            x.proprietary.insert(prop_key(v + 3), vec![v as u8]);
        }),
        f("unknown", true, |x: &mut Output, v| {
            x.unknown.insert(unknown_key(v + 4), vec![]);
        }),
    ]
}

pub fn global_fields() -> Vec<Field<Pset>> {
    vec![
        f("fallback_locktime", false, |p: &mut Pset, v| p.global.tx_data.fallback_locktime = Some(LockTime::from_consensus([0u32, 0][v as usize % 2]))),
        f("tx_modifiable", false, |p: &mut Pset, v| p.global.tx_data.tx_modifiable = Some(1 + v as u8)),
        f("xpub", true, |p: &mut Pset, v| {
            p.global.xpub.insert(xpub(v), key_source(v));
        }),
        f("scalars", true, |p: &mut Pset, v| p.global.scalars.push(gen::tweak(4000 + v))),
        f("elements_tx_modifiable_flag", false, |p: &mut Pset, v| p.global.elements_tx_modifiable_flag = Some(v as u8)),
        f("proprietary", true, |p: &mut Pset, v| {
            p.global.proprietary.insert(prop_key(v + 6), vec![1, v as u8]);
        }),
        f("unknown", true, |p: &mut Pset, v| {
            p.global.unknown.insert(unknown_key(v + 8), vec![9]);
        }),
    ]
}

/// base PSETs: n_in x n_out explicit outputs, optional issuance / pegin on the first input
pub fn base_pset(n_in: usize, n_out: usize, variant: usize) -> Pset {
    let mut p = Pset::new_v2();
    for i in 0..n_in {
        let mut inp = Input::from_prevout(OutPoint::new(Txid::from_byte_array(pat32(i + variant)), i as u32));
        if i == 0 && variant % 3 == 1 {
            inp.issuance_value_amount = Some(1000);
            inp.issuance_asset_entropy = Some(pat32(5));
            inp.blinded_issuance = Some(0);
            inp.previous_output_index |= 1 << 31;
        }
        if i == 0 && variant % 3 == 2 {
            inp.previous_output_index |= 1 << 30;
            inp.pegin_value = Some(42);
        }
        p.add_input(inp);
    }
    for j in 0..n_out {
        let script = if j + 1 == n_out && n_out > 1 { Script::new() } else { crate::props::c04::template_script(2, j as u8) };
        p.add_output(Output::new_explicit(script, 100 + j as u64, AssetId::from_byte_array(pat32(variant % 2)), None));
    }
    p
}

pub fn ser(p: &Pset) -> Vec<u8> {
    elements::encode::serialize(p)
}
