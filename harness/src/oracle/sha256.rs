//! Own SHA-256 (FIPS 180-4), independent of bitcoin_hashes. Exposes the raw compression function
//! (needed for the Elements "fast merkle root" midstate trick) and tagged hashes.

const K: [u32; 64] = [
    0x428a2f98, 0x71374491, 0xb5c0fbcf, 0xe9b5dba5, 0x3956c25b, 0x59f111f1, 0x923f82a4, 0xab1c5ed5,
    0xd807aa98, 0x12835b01, 0x243185be, 0x550c7dc3, 0x72be5d74, 0x80deb1fe, 0x9bdc06a7, 0xc19bf174,
    0xe49b69c1, 0xefbe4786, 0x0fc19dc6, 0x240ca1cc, 0x2de92c6f, 0x4a7484aa, 0x5cb0a9dc, 0x76f988da,
    0x983e5152, 0xa831c66d, 0xb00327c8, 0xbf597fc7, 0xc6e00bf3, 0xd5a79147, 0x06ca6351, 0x14292967,
    0x27b70a85, 0x2e1b2138, 0x4d2c6dfc, 0x53380d13, 0x650a7354, 0x766a0abb, 0x81c2c92e, 0x92722c85,
    0xa2bfe8a1, 0xa81a664b, 0xc24b8b70, 0xc76c51a3, 0xd192e819, 0xd6990624, 0xf40e3585, 0x106aa070,
    0x19a4c116, 0x1e376c08, 0x2748774c, 0x34b0bcb5, 0x391c0cb3, 0x4ed8aa4a, 0x5b9cca4f, 0x682e6ff3,
    0x748f82ee, 0x78a5636f, 0x84c87814, 0x8cc70208, 0x90befffa, 0xa4506ceb, 0xbef9a3f7, 0xc67178f2,
];

pub const IV: [u32; 8] = [
    0x6a09e667, 0xbb67ae85, 0x3c6ef372, 0xa54ff53a, 0x510e527f, 0x9b05688c, 0x1f83d9ab, 0x5be0cd19,
];

pub fn compress(state: &mut [u32; 8], block: &[u8]) {
    debug_assert_eq!(block.len(), 64);
    let mut w = [0u32; 64];
    for i in 0..16 {
        w[i] = u32::from_be_bytes([block[4 * i], block[4 * i + 1], block[4 * i + 2], block[4 * i + 3]]);
    }
    for i in 16..64 {
        let s0 = w[i - 15].rotate_right(7) ^ w[i - 15].rotate_right(18) ^ (w[i - 15] >> 3);
        let s1 = w[i - 2].rotate_right(17) ^ w[i - 2].rotate_right(19) ^ (w[i - 2] >> 10);
        w[i] = w[i - 16].wrapping_add(s0).wrapping_add(w[i - 7]).wrapping_add(s1);
    }
    let [mut a, mut b, mut c, mut d, mut e, mut f, mut g, mut h] = *state;
    for i in 0..64 {
        let s1 = e.rotate_right(6) ^ e.rotate_right(11) ^ e.rotate_right(25);
        let ch = (e & f) ^ ((!e) & g);
        let t1 = h.wrapping_add(s1).wrapping_add(ch).wrapping_add(K[i]).wrapping_add(w[i]);
        let s0 = a.rotate_right(2) ^ a.rotate_right(13) ^ a.rotate_right(22);
        let maj = (a & b) ^ (a & c) ^ (b & c);
        let t2 = s0.wrapping_add(maj);
        h = g;
        g = f;
        f = e;
        e = d.wrapping_add(t1);
        d = c;
        c = b;
        b = a;
        a = t1.wrapping_add(t2);
    }
    state[0] = state[0].wrapping_add(a);
    state[1] = state[1].wrapping_add(b);
    state[2] = state[2].wrapping_add(c);
    state[3] = state[3].wrapping_add(d);
    state[4] = state[4].wrapping_add(e);
    state[5] = state[5].wrapping_add(f);
    state[6] = state[6].wrapping_add(g);
    state[7] = state[7].wrapping_add(h);
}

pub fn state_bytes(s: &[u32; 8]) -> [u8; 32] {
    let mut o = [0u8; 32];
    for i in 0..8 {
        o[4 * i..4 * i + 4].copy_from_slice(&s[i].to_be_bytes());
    }
    o
}

pub fn sha256(data: &[u8]) -> [u8; 32] {
    let mut st = IV;
    let mut chunks = data.chunks_exact(64);
    for c in &mut chunks {
        compress(&mut st, c);
    }
    let rem = chunks.remainder();
    let mut last = [0u8; 128];
    last[..rem.len()].copy_from_slice(rem);
    last[rem.len()] = 0x80;
    let total = if rem.len() + 9 <= 64 { 64 } else { 128 };
    let bits = (data.len() as u64) * 8;
    last[total - 8..total].copy_from_slice(&bits.to_be_bytes());
    compress(&mut st, &last[..64]);
    if total == 128 {
        compress(&mut st, &last[64..128]);
    }
    state_bytes(&st)
}

pub fn sha256d(data: &[u8]) -> [u8; 32] {
    sha256(&sha256(data))
}

/// BIP340-style tagged hash: SHA256(SHA256(tag) || SHA256(tag) || msg)
pub fn tagged(tag: &str, msg: &[u8]) -> [u8; 32] {
    let t = sha256(tag.as_bytes());
    let mut v = Vec::with_capacity(64 + msg.len());
    v.extend_from_slice(&t);
    v.extend_from_slice(&t);
    v.extend_from_slice(msg);
    sha256(&v)
}

/// SHA-256 midstate of one 64-byte block from the IV, no padding (Elements fast merkle node).
pub fn midstate64(left: &[u8; 32], right: &[u8; 32]) -> [u8; 32] {
    let mut b = [0u8; 64];
    b[..32].copy_from_slice(left);
    b[32..].copy_from_slice(right);
    let mut st = IV;
    compress(&mut st, &b);
    state_bytes(&st)
}

pub fn selftest() -> Result<usize, String> {
    let h = |s: &str| crate::engine::unhex(s);
    let vecs: [(&[u8], &str); 3] = [
        (b"", "e3b0c44298fc1c149afbf4c8996fb92427ae41e4649b934ca495991b7852b855"),
        (b"abc", "ba7816bf8f01cfea414140de5dae2223b00361a396177a9cb410ff61f20015ad"),
        (
            b"abcdbcdecdefdefgefghfghighijhijkijkljklmklmnlmnomnopnopq",
            "248d6a61d20638b8e5c026930c3e6039a33ce45964ff2167f6ecedd419db06c1",
        ),
    ];
    for (m, d) in vecs.iter() {
        if sha256(m)[..] != h(d)[..] {
            return Err(format!("sha256 self-test failed for {:?}", m));
        }
    }
    // cross-check against the crate's hash on lengths around the padding boundaries
    use elements::hashes::{sha256 as lib, Hash};
    let mut n = 3;
    for len in [55usize, 56, 57, 63, 64, 65, 119, 120, 127, 128, 129, 1000] {
        let m: Vec<u8> = (0..len).map(|i| (i * 7 + 1) as u8).collect();
        if sha256(&m) != lib::Hash::hash(&m).to_byte_array() {
            return Err(format!("sha256 differs from library at len {}", len));
        }
        n += 1;
    }
    Ok(n)
}
