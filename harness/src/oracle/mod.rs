pub mod merkle;
pub mod sha256;
