pub mod merkle;
pub mod model;
pub mod sha256;
