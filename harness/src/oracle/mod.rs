pub mod addr;
pub mod dynafed;
pub mod merkle;
pub mod model;
pub mod parse;
pub mod sha256;
pub mod sighash;
pub mod rewind;
