//! Independent implementation of the three Elements signing-message constructions: legacy,
//! segwit v0 (BIP143 + issuance extension) and taproot (BIP341 + Elements extensions), over the
//! reference model (own encoders, own SHA-256, own tagged hash).

use super::model::*;
use super::sha256::{sha256, sha256d, tagged};

pub const ALL: u32 = 1;
pub const NONE: u32 = 2;
pub const SINGLE: u32 = 3;
pub const ACP: u32 = 0x80;

/// The SIGHASH_SINGLE out-of-range constant (uint256 one, little endian)
pub const ONE: [u8; 32] = {
    let mut a = [0u8; 32];
    a[0] = 1;
    a
};

pub enum Legacy {
    /// pre-image to be double-SHA256 hashed
    Preimage(Vec<u8>),
    /// SIGHASH_SINGLE with no corresponding output: the digest is the constant itself
    One,
}

fn enc_issuance_or_nothing(out: &mut Vec<u8>, i: &RTxIn) {
    if let Some(is) = &i.issuance {
        enc_issuance(out, is);
    }
}

pub fn legacy(t: &RTx, idx: usize, script_code: &[u8], ty: u32) -> Legacy {
    let base = ty & 0x1f;
    let acp = ty & ACP != 0;
    if base == SINGLE && idx >= t.outs.len() {
        return Legacy::One;
    }
    let mut m = Vec::new();
    m.extend_from_slice(&t.version.to_le_bytes());
    // inputs, in the wire TxIn format (flag bits folded into the index), without witnesses
    let emit_in = |m: &mut Vec<u8>, n: usize| {
        let i = &t.ins[n];
        m.extend_from_slice(&i.txid);
        m.extend_from_slice(&wire_vout(i).to_le_bytes());
        if n == idx {
            bytes(m, script_code);
        } else {
            m.push(0);
        }
        let seq = if n != idx && (base == SINGLE || base == NONE) { 0 } else { i.sequence };
        m.extend_from_slice(&seq.to_le_bytes());
        enc_issuance_or_nothing(m, i);
    };
    if acp {
        varint(&mut m, 1);
        emit_in(&mut m, idx);
    } else {
        varint(&mut m, t.ins.len() as u64);
        for n in 0..t.ins.len() {
            emit_in(&mut m, n);
        }
    }
    match base {
        NONE => varint(&mut m, 0),
        SINGLE => {
            varint(&mut m, idx as u64 + 1);
            for _ in 0..idx {
                // null output: null asset, null value, null nonce, empty script
                m.extend_from_slice(&[0, 0, 0, 0]);
            }
            enc_txout(&mut m, &t.outs[idx]);
        }
        _ => {
            varint(&mut m, t.outs.len() as u64);
            for o in &t.outs {
                enc_txout(&mut m, o);
            }
        }
    }
    m.extend_from_slice(&t.lock_time.to_le_bytes());
    m.extend_from_slice(&ty.to_le_bytes());
    Legacy::Preimage(m)
}

pub fn legacy_digest(t: &RTx, idx: usize, script_code: &[u8], ty: u32) -> [u8; 32] {
    match legacy(t, idx, script_code, ty) {
        Legacy::Preimage(m) => sha256d(&m),
        Legacy::One => ONE,
    }
}

fn plain_outpoint(m: &mut Vec<u8>, i: &RTxIn) {
    m.extend_from_slice(&i.txid);
    m.extend_from_slice(&i.vout.to_le_bytes());
}

pub fn segwit_preimage(t: &RTx, idx: usize, script_code: &[u8], value: &RValue, ty: u32) -> Vec<u8> {
    let base = ty & 0x1f;
    let acp = ty & ACP != 0;
    let zero = [0u8; 32];
    let mut m = Vec::new();
    m.extend_from_slice(&t.version.to_le_bytes());
    if acp {
        m.extend_from_slice(&zero);
    } else {
        let mut p = Vec::new();
        for i in &t.ins {
            plain_outpoint(&mut p, i);
        }
        m.extend_from_slice(&sha256d(&p));
    }
    if !acp && base != SINGLE && base != NONE {
        let mut p = Vec::new();
        for i in &t.ins {
            p.extend_from_slice(&i.sequence.to_le_bytes());
        }
        m.extend_from_slice(&sha256d(&p));
    } else {
        m.extend_from_slice(&zero);
    }
    if acp {
        m.extend_from_slice(&zero);
    } else {
        let mut p = Vec::new();
        for i in &t.ins {
            match &i.issuance {
                Some(is) => enc_issuance(&mut p, is),
                None => p.push(0),
            }
        }
        m.extend_from_slice(&sha256d(&p));
    }
    let i = &t.ins[idx];
    plain_outpoint(&mut m, i);
    bytes(&mut m, script_code);
    enc_value(&mut m, value);
    m.extend_from_slice(&i.sequence.to_le_bytes());
    enc_issuance_or_nothing(&mut m, i);
    if base != SINGLE && base != NONE {
        let mut p = Vec::new();
        for o in &t.outs {
            enc_txout(&mut p, o);
        }
        m.extend_from_slice(&sha256d(&p));
    } else if base == SINGLE && idx < t.outs.len() {
        let mut p = Vec::new();
        enc_txout(&mut p, &t.outs[idx]);
        m.extend_from_slice(&sha256d(&p));
    } else {
        m.extend_from_slice(&zero);
    }
    m.extend_from_slice(&t.lock_time.to_le_bytes());
    m.extend_from_slice(&ty.to_le_bytes());
    m
}

pub fn segwit_digest(t: &RTx, idx: usize, script_code: &[u8], value: &RValue, ty: u32) -> [u8; 32] {
    sha256d(&segwit_preimage(t, idx, script_code, value, ty))
}

#[derive(Debug, PartialEq, Eq, Clone)]
pub enum TapErr {
    SingleWithoutCorrespondingOutput,
    PrevoutsSize,
    IndexOutOfInputsBounds,
}

/// `spent`: all spent outputs (asset, value, script) in input order.
/// `leaf`: Some((leaf hash, code separator position)) for script path spends.
#[allow(clippy::too_many_arguments)]
pub fn taproot_preimage(
    t: &RTx,
    idx: usize,
    spent: &[RTxOut],
    annex: Option<&[u8]>,
    leaf: Option<(&[u8; 32], u32)>,
    ty: u8,
    genesis: &[u8; 32],
) -> Result<Vec<u8>, TapErr> {
    if spent.len() != t.ins.len() {
        return Err(TapErr::PrevoutsSize);
    }
    let base = if ty == 0 { 1 } else { ty & 3 };
    let acp = ty & 0x80 != 0;
    let mut m = Vec::new();
    m.extend_from_slice(genesis);
    m.extend_from_slice(genesis);
    m.push(ty);
    m.extend_from_slice(&t.version.to_le_bytes());
    m.extend_from_slice(&t.lock_time.to_le_bytes());
    let outpoint_flag = |i: &RTxIn| -> u8 { ((i.is_pegin as u8) << 6) | ((i.issuance.is_some() as u8) << 7) };
    let issuance_rps = |p: &mut Vec<u8>, i: &RTxIn| {
        bytes(p, &i.wit.amount_rp);
        bytes(p, &i.wit.keys_rp);
    };
    if !acp {
        let mut p = Vec::new();
        for i in &t.ins {
            p.push(outpoint_flag(i));
        }
        m.extend_from_slice(&sha256(&p));
        let mut p = Vec::new();
        for i in &t.ins {
            plain_outpoint(&mut p, i);
        }
        m.extend_from_slice(&sha256(&p));
        let mut p = Vec::new();
        for s in spent {
            enc_asset(&mut p, &s.asset);
            enc_value(&mut p, &s.value);
        }
        m.extend_from_slice(&sha256(&p));
        let mut p = Vec::new();
        for s in spent {
            bytes(&mut p, &s.script);
        }
        m.extend_from_slice(&sha256(&p));
        let mut p = Vec::new();
        for i in &t.ins {
            p.extend_from_slice(&i.sequence.to_le_bytes());
        }
        m.extend_from_slice(&sha256(&p));
        let mut p = Vec::new();
        for i in &t.ins {
            match &i.issuance {
                Some(is) => enc_issuance(&mut p, is),
                None => p.push(0),
            }
        }
        m.extend_from_slice(&sha256(&p));
        let mut p = Vec::new();
        for i in &t.ins {
            issuance_rps(&mut p, i);
        }
        m.extend_from_slice(&sha256(&p));
    }
    if base != 2 && base != 3 {
        let mut p = Vec::new();
        for o in &t.outs {
            enc_txout(&mut p, o);
        }
        m.extend_from_slice(&sha256(&p));
        let mut p = Vec::new();
        for o in &t.outs {
            enc_outwit(&mut p, o);
        }
        m.extend_from_slice(&sha256(&p));
    }
    let spend_type = (annex.is_some() as u8) | ((leaf.is_some() as u8) << 1);
    m.push(spend_type);
    if acp {
        let i = t.ins.get(idx).ok_or(TapErr::IndexOutOfInputsBounds)?;
        let s = &spent[idx];
        m.push(outpoint_flag(i));
        plain_outpoint(&mut m, i);
        enc_asset(&mut m, &s.asset);
        enc_value(&mut m, &s.value);
        bytes(&mut m, &s.script);
        m.extend_from_slice(&i.sequence.to_le_bytes());
        match &i.issuance {
            Some(is) => {
                enc_issuance(&mut m, is);
                let mut p = Vec::new();
                issuance_rps(&mut p, i);
                m.extend_from_slice(&sha256(&p));
            }
            None => m.push(0),
        }
    } else {
        m.extend_from_slice(&(idx as u32).to_le_bytes());
    }
    if let Some(a) = annex {
        let mut p = Vec::new();
        bytes(&mut p, a);
        m.extend_from_slice(&sha256(&p));
    }
    if base == 3 {
        let o = t.outs.get(idx).ok_or(TapErr::SingleWithoutCorrespondingOutput)?;
        let mut p = Vec::new();
        enc_txout(&mut p, o);
        m.extend_from_slice(&sha256(&p));
        let mut p = Vec::new();
        enc_outwit(&mut p, o);
        m.extend_from_slice(&sha256(&p));
    }
    if let Some((lh, pos)) = leaf {
        m.extend_from_slice(lh);
        m.push(0);
        m.extend_from_slice(&pos.to_le_bytes());
    }
    Ok(m)
}

pub fn taproot_digest(m: &[u8]) -> [u8; 32] {
    tagged("TapSighash/elements", m)
}

/// Reproduce the repository's Elements-generated legacy / segwit sighash vectors with the reference
/// parser + this oracle (no library code involved).
pub fn selftest() -> Result<usize, String> {
    use crate::engine::{hex, unhex};
    let txt = std::fs::read_to_string("/verif/vectors/sighash.json").map_err(|e| format!("vectors/sighash.json: {}", e))?;
    let v: serde_json::Value = serde_json::from_str(&txt).map_err(|e| e.to_string())?;
    let ty = |s: &str| -> u32 {
        match s {
            "All" => 1,
            "None" => 2,
            "Single" => 3,
            "AllPlusAnyoneCanPay" => 0x81,
            "NonePlusAnyoneCanPay" => 0x82,
            "SinglePlusAnyoneCanPay" => 0x83,
            _ => 0,
        }
    };
    let mut n = 0;
    for e in v["legacy"].as_array().unwrap() {
        let t = super::parse::parse_tx(&unhex(e["tx"].as_str().unwrap())).ok_or("reference parser rejects sighash vector tx")?;
        let d = legacy_digest(&t, e["index"].as_u64().unwrap() as usize, &unhex(e["script"].as_str().unwrap()), ty(e["type"].as_str().unwrap()));
        if hex(&d) != e["expected"].as_str().unwrap() {
            return Err(format!("reference legacy sighash disagrees with Elements vector (type {})", e["type"]));
        }
        n += 1;
    }
    for e in v["segwit"].as_array().unwrap() {
        let t = super::parse::parse_tx(&unhex(e["tx"].as_str().unwrap())).ok_or("reference parser rejects sighash vector tx")?;
        let vb = unhex(e["value"].as_str().unwrap());
        let mut c = super::parse::Cur::new(&vb);
        let val = c.value().ok_or("value")?;
        let d = segwit_digest(&t, e["index"].as_u64().unwrap() as usize, &unhex(e["script"].as_str().unwrap()), &val, ty(e["type"].as_str().unwrap()));
        if hex(&d) != e["expected"].as_str().unwrap() {
            return Err(format!("reference segwit sighash disagrees with Elements vector (type {})", e["type"]));
        }
        n += 1;
    }
    Ok(n)
}
