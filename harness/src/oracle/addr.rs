//! Reference address text codecs: base58check, bech32/bech32m (BIP173/350), blech32/blech32m
//! (Elements). Written from the specifications; no code shared with the crate or the bech32 crate.

use super::sha256::sha256d;

const B58: &[u8; 58] = b"123456789ABCDEFGHJKLMNPQRSTUVWXYZabcdefghijkmnopqrstuvwxyz";
pub const CHARSET: &[u8; 32] = b"qpzry9x8gf2tvdw0s3jn54khce6mua7l";

pub fn base58_encode(data: &[u8]) -> String {
    let zeros = data.iter().take_while(|&&b| b == 0).count();
    let mut digits: Vec<u8> = Vec::new(); // little endian base58 digits
    for &b in data {
        let mut carry = b as u32;
        for d in digits.iter_mut() {
            carry += (*d as u32) << 8;
            *d = (carry % 58) as u8;
            carry /= 58;
        }
        while carry > 0 {
            digits.push((carry % 58) as u8);
            carry /= 58;
        }
    }
    let mut s = String::new();
    for _ in 0..zeros {
        s.push('1');
    }
    for d in digits.iter().rev() {
        s.push(B58[*d as usize] as char);
    }
    s
}

pub fn base58_decode(s: &str) -> Option<Vec<u8>> {
    let zeros = s.bytes().take_while(|&b| b == b'1').count();
    let mut bytes: Vec<u8> = Vec::new(); // little endian
    for c in s.bytes() {
        let v = B58.iter().position(|&x| x == c)? as u32;
        let mut carry = v;
        for b in bytes.iter_mut() {
            carry += (*b as u32) * 58;
            *b = (carry & 0xff) as u8;
            carry >>= 8;
        }
        while carry > 0 {
            bytes.push((carry & 0xff) as u8);
            carry >>= 8;
        }
    }
    let mut out = vec![0u8; zeros];
    out.extend(bytes.iter().rev());
    Some(out)
}

pub fn base58check_encode(payload: &[u8]) -> String {
    let mut v = payload.to_vec();
    v.extend_from_slice(&sha256d(payload)[..4]);
    base58_encode(&v)
}

pub fn base58check_decode(s: &str) -> Option<Vec<u8>> {
    let v = base58_decode(s)?;
    if v.len() < 4 {
        return None;
    }
    let (p, c) = v.split_at(v.len() - 4);
    if sha256d(p)[..4] == *c { Some(p.to_vec()) } else { None }
}

#[derive(Clone, Copy, PartialEq, Eq, Debug)]
pub enum Variant {
    Bech32,
    Bech32m,
    Blech32,
    Blech32m,
}

impl Variant {
    pub fn checksum_len(self) -> usize {
        match self {
            Variant::Bech32 | Variant::Bech32m => 6,
            _ => 12,
        }
    }
    pub fn constant(self) -> u64 {
        match self {
            Variant::Bech32 => 1,
            Variant::Bech32m => 0x2bc830a3,
            Variant::Blech32 => 1,
            Variant::Blech32m => 0x455972a3350f7a1,
        }
    }
    pub fn blinded(self) -> bool {
        matches!(self, Variant::Blech32 | Variant::Blech32m)
    }
}

fn polymod_bech32(values: &[u8]) -> u64 {
    const GEN: [u32; 5] = [0x3b6a57b2, 0x26508e6d, 0x1ea119fa, 0x3d4233dd, 0x2a1462b3];
    let mut chk: u32 = 1;
    for &v in values {
        let b = chk >> 25;
        chk = ((chk & 0x1ffffff) << 5) ^ (v as u32);
        for (i, g) in GEN.iter().enumerate() {
            if (b >> i) & 1 == 1 {
                chk ^= g;
            }
        }
    }
    chk as u64
}

fn polymod_blech32(values: &[u8]) -> u64 {
    const GEN: [u64; 5] = [0x7d52fba40bd886, 0x5e8dbf1a03950c, 0x1c3a3c74072a18, 0x385d72fa0e5139, 0x7093e5a608865b];
    let mut chk: u64 = 1;
    for &v in values {
        let b = chk >> 55;
        chk = ((chk & 0x7fffffffffffff) << 5) ^ (v as u64);
        for (i, g) in GEN.iter().enumerate() {
            if (b >> i) & 1 == 1 {
                chk ^= g;
            }
        }
    }
    chk
}

pub fn polymod(var: Variant, values: &[u8]) -> u64 {
    if var.blinded() { polymod_blech32(values) } else { polymod_bech32(values) }
}

pub fn hrp_expand(hrp: &str) -> Vec<u8> {
    let mut v: Vec<u8> = hrp.bytes().map(|c| c >> 5).collect();
    v.push(0);
    v.extend(hrp.bytes().map(|c| c & 31));
    v
}

/// 8-bit to 5-bit conversion with zero padding
pub fn to5(data: &[u8]) -> Vec<u8> {
    let mut acc: u32 = 0;
    let mut bits = 0;
    let mut out = Vec::new();
    for &b in data {
        acc = (acc << 8) | b as u32;
        bits += 8;
        while bits >= 5 {
            bits -= 5;
            out.push(((acc >> bits) & 31) as u8);
        }
    }
    if bits > 0 {
        out.push(((acc << (5 - bits)) & 31) as u8);
    }
    out
}

/// 5-bit to 8-bit; None if padding is > 4 bits or non-zero
pub fn from5(data: &[u8]) -> Option<Vec<u8>> {
    let mut acc: u32 = 0;
    let mut bits = 0;
    let mut out = Vec::new();
    for &v in data {
        acc = (acc << 5) | v as u32;
        bits += 5;
        if bits >= 8 {
            bits -= 8;
            out.push(((acc >> bits) & 0xff) as u8);
        }
    }
    if bits >= 5 || (acc & ((1 << bits) - 1)) != 0 {
        return None;
    }
    Some(out)
}

/// encode hrp + 5-bit data (witness version first) with the given checksum variant
pub fn encode5(hrp: &str, data5: &[u8], var: Variant) -> String {
    let mut values = hrp_expand(hrp);
    values.extend_from_slice(data5);
    let n = var.checksum_len();
    values.extend(std::iter::repeat(0u8).take(n));
    let pm = polymod(var, &values) ^ var.constant();
    let mut s = String::from(hrp);
    s.push('1');
    for &d in data5 {
        s.push(CHARSET[d as usize] as char);
    }
    for i in 0..n {
        s.push(CHARSET[((pm >> (5 * (n - 1 - i))) & 31) as usize] as char);
    }
    s
}

/// segwit-style address: version + bytes (for blinded: 33-byte blinding key followed by the program)
pub fn encode_segwit(hrp: &str, version: u8, bytes: &[u8], var: Variant) -> String {
    let mut d = vec![version];
    d.extend(to5(bytes));
    encode5(hrp, &d, var)
}

/// Parse lower-case hrp1data; returns (hrp, all 5-bit data values incl. checksum)
pub fn split5(s: &str) -> Option<(String, Vec<u8>)> {
    let pos = s.rfind('1')?;
    let (hrp, rest) = s.split_at(pos);
    let mut d = Vec::new();
    for c in rest[1..].bytes() {
        d.push(CHARSET.iter().position(|&x| x == c)? as u8);
    }
    Some((hrp.to_string(), d))
}

/// which variant's checksum the string satisfies (lower-case input)
pub fn verify(s: &str, var: Variant) -> bool {
    match split5(s) {
        None => false,
        Some((hrp, d)) => {
            if d.len() < var.checksum_len() {
                return false;
            }
            let mut v = hrp_expand(&hrp);
            v.extend_from_slice(&d);
            polymod(var, &v) == var.constant()
        }
    }
}

/// Self-test: the 42 fixed address strings of the repository's `test_fixed_addresses` plus BIP173/350
/// vectors must verify under exactly the expected checksum and re-encode to themselves.
pub fn selftest() -> Result<usize, String> {
    let txt = std::fs::read_to_string("/verif/vectors/addresses.json").map_err(|e| format!("vectors/addresses.json: {}", e))?;
    let v: serde_json::Value = serde_json::from_str(&txt).map_err(|e| e.to_string())?;
    let mut n = 0;
    for a in v["fixed"].as_array().unwrap() {
        let s = a.as_str().unwrap();
        let hrps = ["ert", "el", "ex", "lq", "tex", "tlq"];
        let seg = hrps.iter().find(|h| s.starts_with(&format!("{}1", h)));
        match seg {
            Some(h) => {
                let blinded = ["el", "lq", "tlq"].contains(h);
                let (hrp, d) = split5(s).ok_or("split")?;
                let var = match (blinded, d[0] == 0) {
                    (false, true) => Variant::Bech32,
                    (false, false) => Variant::Bech32m,
                    (true, true) => Variant::Blech32,
                    (true, false) => Variant::Blech32m,
                };
                if !verify(s, var) {
                    return Err(format!("reference {:?} checksum rejects pinned address {}", var, s));
                }
                let n5 = d.len() - var.checksum_len();
                let bytes = from5(&d[1..n5]).ok_or("padding")?;
                if encode_segwit(&hrp, d[0], &bytes, var) != s {
                    return Err(format!("reference encoder does not reproduce {}", s));
                }
            }
            None => {
                let p = base58check_decode(s).ok_or(format!("reference base58check rejects pinned address {}", s))?;
                if base58check_encode(&p) != s {
                    return Err(format!("reference base58 encoder does not reproduce {}", s));
                }
            }
        }
        n += 1;
    }
    // BIP173 / BIP350 valid address vectors
    for (s, var) in [
        ("bc1qw508d6qejxtdg4y5r3zarvary0c5xw7kv8f3t4", Variant::Bech32),
        ("tb1qrp33g0q5c5txsp9arysrx4k6zdkfs4nce4xj0gdcccefvpysxf3q0sl5k7", Variant::Bech32),
        ("bc1pw508d6qejxtdg4y5r3zarvary0c5xw7kw508d6qejxtdg4y5r3zarvary0c5xw7kt5nd6y", Variant::Bech32m),
        ("bc1p0xlxvlhemja6c4dqv22uapctqupfhlxm9h8z3k2e72q4k9hcz7vqzk5jj0", Variant::Bech32m),
        ("bc1sw50qgdz25j", Variant::Bech32m),
    ] {
        if !verify(s, var) {
            return Err(format!("reference checksum rejects BIP vector {}", s));
        }
        let other = if var == Variant::Bech32 { Variant::Bech32m } else { Variant::Bech32 };
        if verify(s, other) {
            return Err(format!("reference checksum accepts BIP vector {} under the wrong variant", s));
        }
        n += 1;
    }
    Ok(n)
}
