//! Reference data model of Elements consensus objects ("R*" types, plain data) with an independent
//! reference encoder, and conversions into the crate's types. The reference encoder shares no code
//! with the crate: it writes bytes directly from the Elements serialization rules.

use elements::confidential;
use elements::hashes::Hash;
use elements::secp256k1_zkp as zkp;
use elements::{
    AssetId, AssetIssuance, Block, BlockExtData, BlockHash, BlockHeader, LockTime, OutPoint, Script,
    Sequence, Transaction, TxIn, TxInWitness, TxMerkleNode, TxOut, TxOutWitness, Txid,
};

#[derive(Clone, Debug, PartialEq, Eq, Hash)]
pub enum RAsset {
    Null,
    Explicit([u8; 32]),
    Conf([u8; 33]),
}
#[derive(Clone, Debug, PartialEq, Eq, Hash)]
pub enum RValue {
    Null,
    Explicit(u64),
    Conf([u8; 33]),
}
#[derive(Clone, Debug, PartialEq, Eq, Hash)]
pub enum RNonce {
    Null,
    Explicit([u8; 32]),
    Conf([u8; 33]),
}

#[derive(Clone, Debug, PartialEq, Eq, Hash)]
pub struct RIssuance {
    pub nonce: [u8; 32],
    pub entropy: [u8; 32],
    pub amount: RValue,
    pub keys: RValue,
}

#[derive(Clone, Debug, PartialEq, Eq, Hash, Default)]
pub struct RInWit {
    pub amount_rp: Vec<u8>,
    pub keys_rp: Vec<u8>,
    pub script_wit: Vec<Vec<u8>>,
    pub pegin_wit: Vec<Vec<u8>>,
}

impl RInWit {
    pub fn is_empty(&self) -> bool {
        self.amount_rp.is_empty() && self.keys_rp.is_empty() && self.script_wit.is_empty() && self.pegin_wit.is_empty()
    }
}

#[derive(Clone, Debug, PartialEq, Eq, Hash)]
pub struct RTxIn {
    pub txid: [u8; 32],
    pub vout: u32,
    pub is_pegin: bool,
    pub script_sig: Vec<u8>,
    pub sequence: u32,
    pub issuance: Option<RIssuance>,
    pub wit: RInWit,
}

#[derive(Clone, Debug, PartialEq, Eq, Hash)]
pub struct RTxOut {
    pub asset: RAsset,
    pub value: RValue,
    pub nonce: RNonce,
    pub script: Vec<u8>,
    pub surj: Vec<u8>,
    pub rp: Vec<u8>,
}

impl RTxOut {
    pub fn wit_empty(&self) -> bool {
        self.surj.is_empty() && self.rp.is_empty()
    }
}

#[derive(Clone, Debug, PartialEq, Eq, Hash)]
pub struct RTx {
    pub version: u32,
    pub lock_time: u32,
    pub ins: Vec<RTxIn>,
    pub outs: Vec<RTxOut>,
}

#[derive(Clone, Debug, PartialEq, Eq, Hash)]
pub struct RFull {
    pub signblockscript: Vec<u8>,
    pub limit: u32,
    pub fedpeg_program: Vec<u8>,
    pub fedpegscript: Vec<u8>,
    pub ext: Vec<Vec<u8>>,
}

#[derive(Clone, Debug, PartialEq, Eq, Hash)]
pub enum RParams {
    Null,
    Compact { signblockscript: Vec<u8>, limit: u32, elided_root: [u8; 32] },
    Full(RFull),
}

#[derive(Clone, Debug, PartialEq, Eq, Hash)]
pub enum RExt {
    Proof { challenge: Vec<u8>, solution: Vec<u8> },
    Dynafed { current: RParams, proposed: RParams, witness: Vec<Vec<u8>> },
}

#[derive(Clone, Debug, PartialEq, Eq, Hash)]
pub struct RHeader {
    pub version: u32, // without the dynafed bit
    pub prev: [u8; 32],
    pub merkle_root: [u8; 32],
    pub time: u32,
    pub height: u32,
    pub ext: RExt,
}

#[derive(Clone, Debug, PartialEq, Eq, Hash)]
pub struct RBlock {
    pub header: RHeader,
    pub txs: Vec<RTx>,
}

// ------------------------------------------------------------------------------------------------
// reference encoder

pub fn varint(out: &mut Vec<u8>, n: u64) {
    if n < 0xfd {
        out.push(n as u8);
    } else if n <= 0xffff {
        out.push(0xfd);
        out.extend_from_slice(&(n as u16).to_le_bytes());
    } else if n <= 0xffff_ffff {
        out.push(0xfe);
        out.extend_from_slice(&(n as u32).to_le_bytes());
    } else {
        out.push(0xff);
        out.extend_from_slice(&n.to_le_bytes());
    }
}

pub fn varint_len(n: u64) -> usize {
    if n < 0xfd {
        1
    } else if n <= 0xffff {
        3
    } else if n <= 0xffff_ffff {
        5
    } else {
        9
    }
}

pub fn bytes(out: &mut Vec<u8>, b: &[u8]) {
    varint(out, b.len() as u64);
    out.extend_from_slice(b);
}

pub fn vecvec(out: &mut Vec<u8>, v: &[Vec<u8>]) {
    varint(out, v.len() as u64);
    for x in v {
        bytes(out, x);
    }
}

pub fn enc_asset(out: &mut Vec<u8>, a: &RAsset) {
    match a {
        RAsset::Null => out.push(0),
        RAsset::Explicit(x) => {
            out.push(1);
            out.extend_from_slice(x);
        }
        RAsset::Conf(c) => out.extend_from_slice(c),
    }
}
pub fn enc_value(out: &mut Vec<u8>, a: &RValue) {
    match a {
        RValue::Null => out.push(0),
        RValue::Explicit(x) => {
            out.push(1);
            out.extend_from_slice(&x.to_be_bytes());
        }
        RValue::Conf(c) => out.extend_from_slice(c),
    }
}
pub fn enc_nonce(out: &mut Vec<u8>, a: &RNonce) {
    match a {
        RNonce::Null => out.push(0),
        RNonce::Explicit(x) => {
            out.push(1);
            out.extend_from_slice(x);
        }
        RNonce::Conf(c) => out.extend_from_slice(c),
    }
}

/// wire format of the outpoint index (flag bits folded in unless index is 0xffffffff)
pub fn wire_vout(i: &RTxIn) -> u32 {
    let mut v = i.vout;
    if i.is_pegin {
        v |= 1 << 30;
    }
    if i.issuance.is_some() {
        v |= 1 << 31;
    }
    v
}

pub fn enc_issuance(out: &mut Vec<u8>, is: &RIssuance) {
    out.extend_from_slice(&is.nonce);
    out.extend_from_slice(&is.entropy);
    enc_value(out, &is.amount);
    enc_value(out, &is.keys);
}

pub fn enc_txin(out: &mut Vec<u8>, i: &RTxIn) {
    out.extend_from_slice(&i.txid);
    out.extend_from_slice(&wire_vout(i).to_le_bytes());
    bytes(out, &i.script_sig);
    out.extend_from_slice(&i.sequence.to_le_bytes());
    if let Some(is) = &i.issuance {
        enc_issuance(out, is);
    }
}

pub fn enc_txout(out: &mut Vec<u8>, o: &RTxOut) {
    enc_asset(out, &o.asset);
    enc_value(out, &o.value);
    enc_nonce(out, &o.nonce);
    bytes(out, &o.script);
}

pub fn enc_inwit(out: &mut Vec<u8>, w: &RInWit) {
    bytes(out, &w.amount_rp);
    bytes(out, &w.keys_rp);
    vecvec(out, &w.script_wit);
    vecvec(out, &w.pegin_wit);
}

pub fn enc_outwit(out: &mut Vec<u8>, o: &RTxOut) {
    bytes(out, &o.surj);
    bytes(out, &o.rp);
}

impl RTx {
    pub fn has_witness(&self) -> bool {
        self.ins.iter().any(|i| !i.wit.is_empty()) || self.outs.iter().any(|o| !o.wit_empty())
    }
    /// witness-stripped serialization with literal flag 0
    pub fn enc_stripped(&self) -> Vec<u8> {
        let mut out = Vec::new();
        out.extend_from_slice(&self.version.to_le_bytes());
        out.push(0);
        varint(&mut out, self.ins.len() as u64);
        for i in &self.ins {
            enc_txin(&mut out, i);
        }
        varint(&mut out, self.outs.len() as u64);
        for o in &self.outs {
            enc_txout(&mut out, o);
        }
        out.extend_from_slice(&self.lock_time.to_le_bytes());
        out
    }
    /// full serialization (flag 1 and witness section iff any witness is non-empty)
    pub fn enc_full(&self) -> Vec<u8> {
        if !self.has_witness() {
            return self.enc_stripped();
        }
        let mut out = Vec::new();
        out.extend_from_slice(&self.version.to_le_bytes());
        out.push(1);
        varint(&mut out, self.ins.len() as u64);
        for i in &self.ins {
            enc_txin(&mut out, i);
        }
        varint(&mut out, self.outs.len() as u64);
        for o in &self.outs {
            enc_txout(&mut out, o);
        }
        out.extend_from_slice(&self.lock_time.to_le_bytes());
        for i in &self.ins {
            enc_inwit(&mut out, &i.wit);
        }
        for o in &self.outs {
            enc_outwit(&mut out, o);
        }
        out
    }
}

pub fn enc_full_params(out: &mut Vec<u8>, f: &RFull) {
    bytes(out, &f.signblockscript);
    out.extend_from_slice(&f.limit.to_le_bytes());
    bytes(out, &f.fedpeg_program);
    bytes(out, &f.fedpegscript);
    vecvec(out, &f.ext);
}

pub fn enc_params(out: &mut Vec<u8>, p: &RParams) {
    match p {
        RParams::Null => out.push(0),
        RParams::Compact { signblockscript, limit, elided_root } => {
            out.push(1);
            bytes(out, signblockscript);
            out.extend_from_slice(&limit.to_le_bytes());
            out.extend_from_slice(elided_root);
        }
        RParams::Full(f) => {
            out.push(2);
            enc_full_params(out, f);
        }
    }
}

impl RHeader {
    pub fn is_dynafed(&self) -> bool {
        matches!(self.ext, RExt::Dynafed { .. })
    }
    fn enc_common(&self, out: &mut Vec<u8>) {
        let v = if self.is_dynafed() { self.version | 0x8000_0000 } else { self.version };
        out.extend_from_slice(&v.to_le_bytes());
        out.extend_from_slice(&self.prev);
        out.extend_from_slice(&self.merkle_root);
        out.extend_from_slice(&self.time.to_le_bytes());
        out.extend_from_slice(&self.height.to_le_bytes());
    }
    pub fn enc_full(&self) -> Vec<u8> {
        let mut out = Vec::new();
        self.enc_common(&mut out);
        match &self.ext {
            RExt::Proof { challenge, solution } => {
                bytes(&mut out, challenge);
                bytes(&mut out, solution);
            }
            RExt::Dynafed { current, proposed, witness } => {
                enc_params(&mut out, current);
                enc_params(&mut out, proposed);
                vecvec(&mut out, witness);
            }
        }
        out
    }
    /// what the block hash commits to: no solution, no signblock witness
    pub fn enc_for_hash(&self) -> Vec<u8> {
        let mut out = Vec::new();
        self.enc_common(&mut out);
        match &self.ext {
            RExt::Proof { challenge, .. } => bytes(&mut out, challenge),
            RExt::Dynafed { current, proposed, .. } => {
                enc_params(&mut out, current);
                enc_params(&mut out, proposed);
            }
        }
        out
    }
}

impl RBlock {
    pub fn enc_full(&self) -> Vec<u8> {
        let mut out = self.header.enc_full();
        varint(&mut out, self.txs.len() as u64);
        for t in &self.txs {
            out.extend_from_slice(&t.enc_full());
        }
        out
    }
}

// ------------------------------------------------------------------------------------------------
// conversion into the crate's types (through public constructors / public fields only)

pub fn to_asset(a: &RAsset) -> confidential::Asset {
    match a {
        RAsset::Null => confidential::Asset::Null,
        RAsset::Explicit(x) => confidential::Asset::Explicit(AssetId::from_byte_array(*x)),
        RAsset::Conf(c) => confidential::Asset::Confidential(zkp::Generator::from_slice(c).expect("menu generator valid")),
    }
}
pub fn to_value(a: &RValue) -> confidential::Value {
    match a {
        RValue::Null => confidential::Value::Null,
        RValue::Explicit(x) => confidential::Value::Explicit(*x),
        RValue::Conf(c) => {
            confidential::Value::Confidential(zkp::PedersenCommitment::from_slice(c).expect("menu commitment valid"))
        }
    }
}
pub fn to_nonce(a: &RNonce) -> confidential::Nonce {
    match a {
        RNonce::Null => confidential::Nonce::Null,
        RNonce::Explicit(x) => confidential::Nonce::Explicit(*x),
        RNonce::Conf(c) => confidential::Nonce::Confidential(zkp::PublicKey::from_slice(c).expect("menu pubkey valid")),
    }
}

pub fn to_rp(b: &[u8]) -> Option<Box<zkp::RangeProof>> {
    if b.is_empty() {
        None
    } else {
        Some(Box::new(zkp::RangeProof::from_slice(b).expect("menu rangeproof valid")))
    }
}
pub fn to_sp(b: &[u8]) -> Option<Box<zkp::SurjectionProof>> {
    if b.is_empty() {
        None
    } else {
        Some(Box::new(zkp::SurjectionProof::from_slice(b).expect("menu surjection proof valid")))
    }
}

pub fn to_txin(i: &RTxIn) -> TxIn {
    TxIn {
        previous_output: OutPoint { txid: Txid::from_byte_array(i.txid), vout: i.vout },
        is_pegin: i.is_pegin,
        script_sig: Script::from(i.script_sig.clone()),
        sequence: Sequence(i.sequence),
        asset_issuance: match &i.issuance {
            None => AssetIssuance::default(),
            Some(is) => AssetIssuance {
                asset_blinding_nonce: zkp::Tweak::from_inner(is.nonce).expect("menu tweak valid"),
                asset_entropy: is.entropy,
                amount: to_value(&is.amount),
                inflation_keys: to_value(&is.keys),
            },
        },
        witness: TxInWitness {
            amount_rangeproof: to_rp(&i.wit.amount_rp),
            inflation_keys_rangeproof: to_rp(&i.wit.keys_rp),
            script_witness: i.wit.script_wit.clone(),
            pegin_witness: i.wit.pegin_wit.clone(),
        },
    }
}

pub fn to_txout(o: &RTxOut) -> TxOut {
    TxOut {
        asset: to_asset(&o.asset),
        value: to_value(&o.value),
        nonce: to_nonce(&o.nonce),
        script_pubkey: Script::from(o.script.clone()),
        witness: TxOutWitness { surjection_proof: to_sp(&o.surj), rangeproof: to_rp(&o.rp) },
    }
}

pub fn to_tx(t: &RTx) -> Transaction {
    Transaction {
        version: t.version,
        lock_time: LockTime::from_consensus(t.lock_time),
        input: t.ins.iter().map(to_txin).collect(),
        output: t.outs.iter().map(to_txout).collect(),
    }
}

pub fn to_full(f: &RFull) -> elements::dynafed::FullParams {
    elements::dynafed::FullParams::new(
        Script::from(f.signblockscript.clone()),
        f.limit,
        elements::bitcoin::ScriptBuf::from_bytes(f.fedpeg_program.clone()),
        f.fedpegscript.clone(),
        f.ext.clone(),
    )
}

pub fn to_params(p: &RParams) -> elements::dynafed::Params {
    use elements::dynafed::{ElidedRoot, Params};
    match p {
        RParams::Null => Params::Null,
        RParams::Compact { signblockscript, limit, elided_root } => Params::Compact {
            signblockscript: Script::from(signblockscript.clone()),
            signblock_witness_limit: *limit,
            elided_root: ElidedRoot::from_byte_array(*elided_root),
        },
        RParams::Full(f) => Params::Full(to_full(f)),
    }
}

pub fn to_header(h: &RHeader) -> BlockHeader {
    BlockHeader {
        version: h.version,
        prev_blockhash: BlockHash::from_byte_array(h.prev),
        merkle_root: TxMerkleNode::from_byte_array(h.merkle_root),
        time: h.time,
        height: h.height,
        ext: match &h.ext {
            RExt::Proof { challenge, solution } => {
                BlockExtData::Proof { challenge: Script::from(challenge.clone()), solution: Script::from(solution.clone()) }
            }
            RExt::Dynafed { current, proposed, witness } => BlockExtData::Dynafed {
                current: to_params(current),
                proposed: to_params(proposed),
                signblock_witness: witness.clone(),
            },
        },
    }
}

pub fn to_block(b: &RBlock) -> Block {
    Block { header: to_header(&b.header), txdata: b.txs.iter().map(to_tx).collect() }
}

// ------------------------------------------------------------------------------------------------
// conversion back (from crate values to the reference model), used to run reference computations on
// values produced by the library itself (blinders, decoders)

pub fn from_asset(a: &confidential::Asset) -> RAsset {
    match a {
        confidential::Asset::Null => RAsset::Null,
        confidential::Asset::Explicit(x) => RAsset::Explicit(x.to_byte_array()),
        confidential::Asset::Confidential(g) => RAsset::Conf(g.serialize()),
    }
}
pub fn from_value(a: &confidential::Value) -> RValue {
    match a {
        confidential::Value::Null => RValue::Null,
        confidential::Value::Explicit(x) => RValue::Explicit(*x),
        confidential::Value::Confidential(g) => RValue::Conf(g.serialize()),
    }
}
pub fn from_nonce(a: &confidential::Nonce) -> RNonce {
    match a {
        confidential::Nonce::Null => RNonce::Null,
        confidential::Nonce::Explicit(x) => RNonce::Explicit(*x),
        confidential::Nonce::Confidential(g) => RNonce::Conf(g.serialize()),
    }
}
pub fn from_txin(i: &TxIn) -> RTxIn {
    let null_iss = i.asset_issuance.amount == confidential::Value::Null && i.asset_issuance.inflation_keys == confidential::Value::Null;
    RTxIn {
        txid: i.previous_output.txid.to_byte_array(),
        vout: i.previous_output.vout,
        is_pegin: i.is_pegin,
        script_sig: i.script_sig.to_bytes(),
        sequence: i.sequence.0,
        issuance: if null_iss {
            None
        } else {
            Some(RIssuance {
                nonce: *i.asset_issuance.asset_blinding_nonce.as_ref(),
                entropy: i.asset_issuance.asset_entropy,
                amount: from_value(&i.asset_issuance.amount),
                keys: from_value(&i.asset_issuance.inflation_keys),
            })
        },
        wit: RInWit {
            amount_rp: i.witness.amount_rangeproof.as_ref().map(|p| p.serialize()).unwrap_or_default(),
            keys_rp: i.witness.inflation_keys_rangeproof.as_ref().map(|p| p.serialize()).unwrap_or_default(),
            script_wit: i.witness.script_witness.clone(),
            pegin_wit: i.witness.pegin_witness.clone(),
        },
    }
}
pub fn from_txout(o: &TxOut) -> RTxOut {
    RTxOut {
        asset: from_asset(&o.asset),
        value: from_value(&o.value),
        nonce: from_nonce(&o.nonce),
        script: o.script_pubkey.to_bytes(),
        surj: o.witness.surjection_proof.as_ref().map(|p| p.serialize()).unwrap_or_default(),
        rp: o.witness.rangeproof.as_ref().map(|p| p.serialize()).unwrap_or_default(),
    }
}
pub fn from_tx(t: &Transaction) -> RTx {
    RTx {
        version: t.version,
        lock_time: t.lock_time.to_consensus_u32(),
        ins: t.input.iter().map(from_txin).collect(),
        outs: t.output.iter().map(from_txout).collect(),
    }
}

pub fn from_params(p: &elements::dynafed::Params) -> RParams {
    use elements::dynafed::Params;
    match p {
        Params::Null => RParams::Null,
        Params::Compact { signblockscript, signblock_witness_limit, elided_root } => RParams::Compact {
            signblockscript: signblockscript.to_bytes(),
            limit: *signblock_witness_limit,
            elided_root: elided_root.to_byte_array(),
        },
        Params::Full(f) => RParams::Full(RFull {
            signblockscript: f.signblockscript.to_bytes(),
            limit: f.signblock_witness_limit,
            fedpeg_program: f.fedpeg_program.to_bytes(),
            fedpegscript: f.fedpegscript.clone(),
            ext: f.extension_space.clone(),
        }),
    }
}

pub fn from_header(h: &BlockHeader) -> RHeader {
    RHeader {
        version: h.version,
        prev: h.prev_blockhash.to_byte_array(),
        merkle_root: h.merkle_root.to_byte_array(),
        time: h.time,
        height: h.height,
        ext: match &h.ext {
            BlockExtData::Proof { challenge, solution } => RExt::Proof { challenge: challenge.to_bytes(), solution: solution.to_bytes() },
            BlockExtData::Dynafed { current, proposed, signblock_witness } => {
                RExt::Dynafed { current: from_params(current), proposed: from_params(proposed), witness: signblock_witness.clone() }
            }
        },
    }
}
