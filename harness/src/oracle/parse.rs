//! Reference parser for the Elements wire format (transactions, headers, blocks) into the R* model.
//! Strict: minimal varints, witness flag 0/1 only. Curve points and proofs are kept as opaque bytes.

use super::model::*;

pub struct Cur<'a> {
    pub b: &'a [u8],
    pub p: usize,
    /// (position, encoded length, value) of every varint read: the parse tree's length / count fields
    pub marks: Vec<(usize, usize, u64)>,
}

impl<'a> Cur<'a> {
    pub fn new(b: &'a [u8]) -> Self {
        Cur { b, p: 0, marks: Vec::new() }
    }
    pub fn take(&mut self, n: usize) -> Option<&'a [u8]> {
        if self.p.checked_add(n)? > self.b.len() {
            return None;
        }
        let s = &self.b[self.p..self.p + n];
        self.p += n;
        Some(s)
    }
    pub fn u8(&mut self) -> Option<u8> {
        Some(self.take(1)?[0])
    }
    pub fn u32(&mut self) -> Option<u32> {
        let s = self.take(4)?;
        Some(u32::from_le_bytes([s[0], s[1], s[2], s[3]]))
    }
    pub fn a32(&mut self) -> Option<[u8; 32]> {
        let mut a = [0u8; 32];
        a.copy_from_slice(self.take(32)?);
        Some(a)
    }
    pub fn varint(&mut self) -> Option<u64> {
        let start = self.p;
        let v = self.varint_inner()?;
        self.marks.push((start, self.p - start, v));
        Some(v)
    }
    fn varint_inner(&mut self) -> Option<u64> {
        match self.u8()? {
            0xff => {
                let s = self.take(8)?;
                let v = u64::from_le_bytes([s[0], s[1], s[2], s[3], s[4], s[5], s[6], s[7]]);
                if v < 0x1_0000_0000 { None } else { Some(v) }
            }
            0xfe => {
                let v = self.u32()? as u64;
                if v < 0x10000 { None } else { Some(v) }
            }
            0xfd => {
                let s = self.take(2)?;
                let v = u16::from_le_bytes([s[0], s[1]]) as u64;
                if v < 0xfd { None } else { Some(v) }
            }
            n => Some(n as u64),
        }
    }
    pub fn bytes(&mut self) -> Option<Vec<u8>> {
        let n = self.varint()?;
        if n > 4_000_000 {
            return None;
        }
        Some(self.take(n as usize)?.to_vec())
    }
    pub fn vecvec(&mut self) -> Option<Vec<Vec<u8>>> {
        let n = self.varint()?;
        if n > 200_000 {
            return None;
        }
        let mut v = Vec::new();
        for _ in 0..n {
            v.push(self.bytes()?);
        }
        Some(v)
    }
    fn conf33(&mut self, first: u8) -> Option<[u8; 33]> {
        let mut a = [0u8; 33];
        a[0] = first;
        a[1..].copy_from_slice(self.take(32)?);
        Some(a)
    }
    pub fn asset(&mut self) -> Option<RAsset> {
        match self.u8()? {
            0 => Some(RAsset::Null),
            1 => Some(RAsset::Explicit(self.a32()?)),
            p @ (0x0a | 0x0b) => Some(RAsset::Conf(self.conf33(p)?)),
            _ => None,
        }
    }
    pub fn value(&mut self) -> Option<RValue> {
        match self.u8()? {
            0 => Some(RValue::Null),
            1 => {
                let s = self.take(8)?;
                Some(RValue::Explicit(u64::from_be_bytes([s[0], s[1], s[2], s[3], s[4], s[5], s[6], s[7]])))
            }
            p @ (0x08 | 0x09) => Some(RValue::Conf(self.conf33(p)?)),
            _ => None,
        }
    }
    pub fn nonce(&mut self) -> Option<RNonce> {
        match self.u8()? {
            0 => Some(RNonce::Null),
            1 => Some(RNonce::Explicit(self.a32()?)),
            p @ (0x02 | 0x03) => Some(RNonce::Conf(self.conf33(p)?)),
            _ => None,
        }
    }
    pub fn txin(&mut self) -> Option<RTxIn> {
        let txid = self.a32()?;
        let wire = self.u32()?;
        let script_sig = self.bytes()?;
        let sequence = self.u32()?;
        let (vout, is_pegin, has_iss) =
            if wire == 0xffff_ffff { (wire, false, false) } else { (wire & 0x3fff_ffff, wire & (1 << 30) != 0, wire & (1 << 31) != 0) };
        let issuance = if has_iss {
            let nonce = self.a32()?;
            let entropy = self.a32()?;
            let amount = self.value()?;
            let keys = self.value()?;
            if amount == RValue::Null && keys == RValue::Null {
                return None;
            }
            Some(RIssuance { nonce, entropy, amount, keys })
        } else {
            None
        };
        Some(RTxIn { txid, vout, is_pegin, script_sig, sequence, issuance, wit: RInWit::default() })
    }
    pub fn txout(&mut self) -> Option<RTxOut> {
        Some(RTxOut { asset: self.asset()?, value: self.value()?, nonce: self.nonce()?, script: self.bytes()?, surj: vec![], rp: vec![] })
    }
    pub fn tx(&mut self) -> Option<RTx> {
        let version = self.u32()?;
        let flag = self.u8()?;
        if flag > 1 {
            return None;
        }
        let n_in = self.varint()?;
        if n_in > 100_000 {
            return None;
        }
        let mut ins = Vec::new();
        for _ in 0..n_in {
            ins.push(self.txin()?);
        }
        let n_out = self.varint()?;
        if n_out > 100_000 {
            return None;
        }
        let mut outs = Vec::new();
        for _ in 0..n_out {
            outs.push(self.txout()?);
        }
        let lock_time = self.u32()?;
        if flag == 1 {
            for i in ins.iter_mut() {
                i.wit = RInWit { amount_rp: self.bytes()?, keys_rp: self.bytes()?, script_wit: self.vecvec()?, pegin_wit: self.vecvec()? };
            }
            for o in outs.iter_mut() {
                o.surj = self.bytes()?;
                o.rp = self.bytes()?;
            }
        }
        let t = RTx { version, lock_time, ins, outs };
        if flag == 1 && !t.has_witness() {
            return None;
        }
        Some(t)
    }
    pub fn params(&mut self) -> Option<RParams> {
        match self.u8()? {
            0 => Some(RParams::Null),
            1 => Some(RParams::Compact { signblockscript: self.bytes()?, limit: self.u32()?, elided_root: self.a32()? }),
            2 => Some(RParams::Full(RFull {
                signblockscript: self.bytes()?,
                limit: self.u32()?,
                fedpeg_program: self.bytes()?,
                fedpegscript: self.bytes()?,
                ext: self.vecvec()?,
            })),
            _ => None,
        }
    }
    pub fn header(&mut self) -> Option<RHeader> {
        let v = self.u32()?;
        let dyna = v >> 31 == 1;
        let prev = self.a32()?;
        let merkle_root = self.a32()?;
        let time = self.u32()?;
        let height = self.u32()?;
        let ext = if dyna {
            RExt::Dynafed { current: self.params()?, proposed: self.params()?, witness: self.vecvec()? }
        } else {
            RExt::Proof { challenge: self.bytes()?, solution: self.bytes()? }
        };
        Some(RHeader { version: v & 0x7fff_ffff, prev, merkle_root, time, height, ext })
    }
    pub fn block(&mut self) -> Option<RBlock> {
        let header = self.header()?;
        let n = self.varint()?;
        if n > 100_000 {
            return None;
        }
        let mut txs = Vec::new();
        for _ in 0..n {
            txs.push(self.tx()?);
        }
        Some(RBlock { header, txs })
    }
}

pub fn parse_tx(b: &[u8]) -> Option<RTx> {
    let mut c = Cur::new(b);
    let t = c.tx()?;
    if c.p == b.len() { Some(t) } else { None }
}
pub fn parse_block(b: &[u8]) -> Option<RBlock> {
    let mut c = Cur::new(b);
    let t = c.block()?;
    if c.p == b.len() { Some(t) } else { None }
}
pub fn parse_header(b: &[u8]) -> Option<RHeader> {
    let mut c = Cur::new(b);
    let t = c.header()?;
    if c.p == b.len() { Some(t) } else { None }
}

/// Id vectors pinned by the repository (generated by Elements Core), see tools/extract_vectors.py.
/// Checks: reference parse -> reference encode reproduces the bytes; SHA256d of the stripped / full /
/// header-for-hash serializations equals the pinned txid / wtxid / block hash.
pub fn selftest_ids() -> Result<usize, String> {
    use crate::engine::{hex, unhex};
    use crate::oracle::sha256::sha256d;
    let txt = std::fs::read_to_string("/verif/vectors/ids.json").map_err(|e| format!("vectors/ids.json: {}", e))?;
    let v: serde_json::Value = serde_json::from_str(&txt).map_err(|e| e.to_string())?;
    let rev = |h: [u8; 32]| {
        let mut x = h;
        x.reverse();
        hex(&x)
    };
    let mut n = 0;
    for t in v["txs"].as_array().unwrap() {
        let b = unhex(t["hex"].as_str().unwrap());
        let rt = parse_tx(&b).ok_or("reference parser rejects a pinned transaction")?;
        if rt.enc_full() != b {
            return Err("reference encoder does not reproduce a pinned transaction".into());
        }
        if let Some(id) = t["txid"].as_str() {
            if rev(sha256d(&rt.enc_stripped())) != id {
                return Err(format!("reference txid mismatch for pinned vector {}", id));
            }
            n += 1;
        }
        if let Some(id) = t["wtxid"].as_str() {
            if rev(sha256d(&rt.enc_full())) != id {
                return Err(format!("reference wtxid mismatch for pinned vector {}", id));
            }
            n += 1;
        }
    }
    for t in v["blocks"].as_array().unwrap() {
        let b = unhex(t["hex"].as_str().unwrap());
        let rb = parse_block(&b).ok_or("reference parser rejects a pinned block")?;
        if rb.enc_full() != b {
            return Err("reference encoder does not reproduce a pinned block".into());
        }
        if rev(sha256d(&rb.header.enc_for_hash())) != t["hash"].as_str().unwrap() {
            return Err("reference block hash mismatch for pinned vector".into());
        }
        n += 1;
    }
    Ok(n)
}

/// Structure-aware deviations: every length / count field of the reference parse tree rewritten to each
/// non-minimal wider form and to value +-1 (minimal form). Calls f for each resulting string.
pub fn varint_field_deviations(e: &[u8], marks: &[(usize, usize, u64)], f: &mut dyn FnMut(&[u8])) -> u64 {
    let mut n = 0u64;
    for &(pos, len, v) in marks {
        let mut forms: Vec<Vec<u8>> = Vec::new();
        // wider (non-minimal) forms of the same value
        if len < 3 && v <= 0xffff {
            let mut x = vec![0xfd];
            x.extend_from_slice(&(v as u16).to_le_bytes());
            forms.push(x);
        }
        if len < 5 && v <= 0xffff_ffff {
            let mut x = vec![0xfe];
            x.extend_from_slice(&(v as u32).to_le_bytes());
            forms.push(x);
        }
        if len < 9 {
            let mut x = vec![0xff];
            x.extend_from_slice(&v.to_le_bytes());
            forms.push(x);
        }
        // neighbouring values in minimal form
        for w in [v.wrapping_add(1), v.wrapping_sub(1)] {
            let mut x = Vec::new();
            super::model::varint(&mut x, w);
            forms.push(x);
        }
        for form in forms {
            let mut s = Vec::with_capacity(e.len() + 9);
            s.extend_from_slice(&e[..pos]);
            s.extend_from_slice(&form);
            s.extend_from_slice(&e[pos + len..]);
            f(&s);
            n += 1;
        }
    }
    n
}

pub fn tx_marks(b: &[u8]) -> Option<Vec<(usize, usize, u64)>> {
    let mut c = Cur::new(b);
    c.tx()?;
    Some(c.marks)
}
pub fn block_marks(b: &[u8]) -> Option<Vec<(usize, usize, u64)>> {
    let mut c = Cur::new(b);
    c.block()?;
    Some(c.marks)
}
pub fn header_marks(b: &[u8]) -> Option<Vec<(usize, usize, u64)>> {
    let mut c = Cur::new(b);
    c.header()?;
    Some(c.marks)
}
