//! Reference dynafed parameter roots: two-level fast-merkle commitment.

use super::merkle::fast_root;
use super::model::*;
use super::sha256::sha256d;

fn h_bytes(b: &[u8]) -> [u8; 32] {
    let mut v = Vec::new();
    bytes(&mut v, b);
    sha256d(&v)
}

pub fn compact_leaf_root(signblockscript: &[u8], limit: u32) -> [u8; 32] {
    fast_root(&[h_bytes(signblockscript), sha256d(&limit.to_le_bytes())])
}

pub fn extra_root(f: &RFull) -> [u8; 32] {
    let mut e = Vec::new();
    vecvec(&mut e, &f.ext);
    fast_root(&[h_bytes(&f.fedpeg_program), h_bytes(&f.fedpegscript), sha256d(&e)])
}

pub fn params_root(p: &RParams) -> [u8; 32] {
    match p {
        RParams::Null => [0u8; 32],
        RParams::Compact { signblockscript, limit, elided_root } => fast_root(&[compact_leaf_root(signblockscript, *limit), *elided_root]),
        RParams::Full(f) => fast_root(&[compact_leaf_root(&f.signblockscript, f.limit), extra_root(f)]),
    }
}

pub fn header_root(h: &RHeader) -> Option<[u8; 32]> {
    match &h.ext {
        RExt::Proof { .. } => None,
        RExt::Dynafed { current, proposed, .. } => Some(fast_root(&[params_root(current), params_root(proposed)])),
    }
}

/// Constants pinned in the repository's `test_param_roots`.
pub fn selftest() -> Result<usize, String> {
    // the wrappers' {:x} formatting prints the bytes reversed (like uint256::GetHex)
    let hex = |b: &[u8; 32]| { let mut x = *b; x.reverse(); crate::engine::hex(&x) };
    let compact = RParams::Compact { signblockscript: vec![1], limit: 2, elided_root: [0; 32] };
    let full = RParams::Full(RFull { signblockscript: vec![1], limit: 2, fedpeg_program: vec![3], fedpegscript: vec![4], ext: vec![vec![5, 6], vec![7]] });
    if hex(&params_root(&compact)) != "f98f149fd11da6fbe26d0ee53cadd28372fa9eed2cb7080f41da7ca311531777" {
        return Err(format!("reference compact root {} differs from pinned constant", hex(&params_root(&compact))));
    }
    if hex(&params_root(&full)) != "8eb1b83cce69a3d8b0bfb7fbe77ae8f1d24b57a9cae047b8c0aba084ad878249" {
        return Err("reference full root differs from pinned constant".into());
    }
    let h = RHeader { version: 0, prev: [0; 32], merkle_root: [0; 32], time: 0, height: 0, ext: RExt::Dynafed { current: compact, proposed: full, witness: vec![] } };
    if hex(&header_root(&h).unwrap()) != "113160f76dc17fe367a2def79aefe06feeea9c795310c9e88aeedc23e145982e" {
        return Err("reference header dynafed root differs from pinned constant".into());
    }
    Ok(3)
}
