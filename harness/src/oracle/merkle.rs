//! Reference "fast merkle root": definitional level-by-level tree over the raw SHA-256 compression
//! function; an unpaired last node is promoted unchanged.

use super::sha256::midstate64;

pub fn fast_root(leaves: &[[u8; 32]]) -> [u8; 32] {
    if leaves.is_empty() {
        return [0u8; 32];
    }
    let mut level: Vec<[u8; 32]> = leaves.to_vec();
    while level.len() > 1 {
        let mut next = Vec::with_capacity((level.len() + 1) / 2);
        let mut i = 0;
        while i + 1 < level.len() {
            next.push(midstate64(&level[i], &level[i + 1]));
            i += 2;
        }
        if i < level.len() {
            next.push(level[i]);
        }
        level = next;
    }
    level[0]
}

/// The five Elements Core roots pinned in the repository's unit test.
pub fn selftest() -> Result<usize, String> {
    let rev = |s: &str| {
        let mut v = crate::engine::unhex(s);
        v.reverse();
        let mut a = [0u8; 32];
        a.copy_from_slice(&v);
        a
    };
    let leaves = [
        "b66b041650db0f297b53f8d93c0e8706925bf3323f8c59c14a6fac37bfdcd06f",
        "99cb2fa68b2294ae133550a9f765fc755d71baa7b24389fed67d1ef3e5cb0255",
        "257e1b2fa49dd15724c67bac4df7911d44f6689860aa9f65a881ae0a2f40a303",
        "b67b0b9f093fa83d5e44b707ab962502b7ac58630e556951136196e65483bb80",
    ];
    let roots = [
        "0000000000000000000000000000000000000000000000000000000000000000",
        "b66b041650db0f297b53f8d93c0e8706925bf3323f8c59c14a6fac37bfdcd06f",
        "f752938da0cb71c051aabdd5a86658e8d0b7ac00e1c2074202d8d2a79d8a6cf6",
        "245d364a28e9ad20d522c4a25ffc6a7369ab182f884e1c7dcd01aa3d32896bd3",
        "317d6498574b6ca75ee0368ec3faec75e096e245bdd5f36e8726fa693f775dfc",
    ];
    let ls: Vec<[u8; 32]> = leaves.iter().map(|s| rev(s)).collect();
    for n in 0..=4 {
        if fast_root(&ls[..n]) != rev(roots[n]) {
            return Err(format!("reference fast merkle root disagrees with Elements Core vector #{}", n));
        }
    }
    Ok(5)
}
