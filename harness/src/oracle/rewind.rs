//! Independent opening of a blinded output, the way a non-rust-elements wallet (Elements Core) does it:
//! nonce = SHA256d(compressed ECDH point of the output's ephemeral key and the receiver's blinding key), rewind of the
//! range proof with that nonce (libsecp256k1-zkp, trusted), message = asset id (32 bytes, internal order) followed by the
//! asset blinding factor (32 bytes). Shares no code with `TxOut::unblind`, `Nonce::shared_secret` or
//! `RangeProofMessage`.

use crate::oracle::sha256::sha256d;
use elements::confidential::{Asset, Nonce, Value};
use elements::secp256k1_zkp as zkp;
use elements::TxOut;

pub struct Opened {
    pub asset: [u8; 32],
    pub abf: [u8; 32],
    pub value: u64,
    pub vbf: [u8; 32],
}

pub fn open(secp: &zkp::Secp256k1<zkp::All>, out: &TxOut, receiver_sk: &zkp::SecretKey) -> Result<Opened, String> {
    let (commitment, generator) = match (out.value, out.asset) {
        (Value::Confidential(c), Asset::Confidential(g)) => (c, g),
        _ => return Err("output is not confidential".into()),
    };
    let eph = match out.nonce {
        Nonce::Confidential(pk) => pk,
        _ => return Err("output has no ephemeral key".into()),
    };
    // ECDH point = receiver_sk * ephemeral_pk, through the public-key tweak API (not the ecdh module the crate uses)
    let point = eph.mul_tweak(secp, &zkp::Scalar::from(*receiver_sk)).map_err(|e| format!("ecdh: {:?}", e))?;
    let nonce = zkp::SecretKey::from_slice(&sha256d(&point.serialize())).map_err(|e| format!("nonce: {:?}", e))?;
    let proof = out.witness.rangeproof.as_ref().ok_or("no range proof")?;
    let (opening, _range) = proof.rewind(secp, commitment, nonce, out.script_pubkey.as_bytes(), generator).map_err(|e| format!("rewind: {:?}", e))?;
    let msg: &[u8] = opening.message.as_ref();
    if msg.len() < 64 {
        return Err(format!("message of {} bytes", msg.len()));
    }
    let mut asset = [0u8; 32];
    let mut abf = [0u8; 32];
    asset.copy_from_slice(&msg[..32]);
    abf.copy_from_slice(&msg[32..64]);
    let mut vbf = [0u8; 32];
    vbf.copy_from_slice(opening.blinding_factor.as_ref());
    Ok(Opened { asset, abf, value: opening.value, vbf })
}
